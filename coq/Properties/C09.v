(* C09 — "An interrupted search leaves the engine's position untouched".
   Model: Model/Search.v (tied to engine_core/src/engine/search.rs by the `session` correspondence family).
   Every statement quantifies over ALL oracles: any abort test point, any content of the message channel at any
   poll (stop, quit, ...), any clock.  The inverse property of make/unmake (C03) enters as the hypothesis
   [C03_family T good Q] on an indexed family of boards (Proofs/SearchProofs.v explains why an index is needed:
   the 12-bit previous-half-move field makes C03 false for a half-move clock >= 4096). *)
Require Import Ink.Lib.Str.
Require Import NArith ZArith List Bool.
Require Import Ink.Model.Tables Ink.Model.Board Ink.Model.UciTx Ink.Model.Search Ink.Proofs.SearchProofs.
Import ListNotations.
Open Scope N_scope.

(* search_negamax gives the board back, whatever happens during the search *)
Theorem C09_negamax_board : forall (T : Tables.t) good Q, C03_family T good Q ->
  forall orc d ply alpha beta is_pv zh zph st, good (d + S Q)%nat (s_board st) ->
  s_board (snd (negamax T orc d ply alpha beta is_pv zh zph st)) = s_board st.
Proof. exact C09_negamax_board_thm. Qed.
Print Assumptions C09_negamax_board.

(* so does search_quiescence *)
Theorem C09_quiescence_board : forall (T : Tables.t) good Q, C03_family T good Q ->
  forall fuel alpha beta zph st, good fuel (s_board st) ->
  s_board (snd (quiescence T fuel alpha beta zph st)) = s_board st.
Proof. exact C09_quiescence_board_thm. Qed.
Print Assumptions C09_quiescence_board.

(* a whole `go` (any number of iterations D, the last one possibly aborted) gives the board back *)
Theorem C09_go_board : forall (T : Tables.t) good Q, C03_family T good Q ->
  forall orc g st D, (length (fst (go_full T orc g st)) <= D)%nat -> good (D + S Q)%nat (s_board st) ->
  s_board (go T orc g st) = s_board st.
Proof. exact C09_go_board_thm. Qed.
Print Assumptions C09_go_board.

(* with `go depth dd` the number of iterations is at most max(dd, 1) *)
Theorem C09_go_depth_board : forall (T : Tables.t) good Q, C03_family T good Q ->
  forall orc g st dd, g_depth g = Some dd ->
  good (Pos.to_nat (match N.max dd 1 with Npos q => q | N0 => xH end) + S Q)%nat (s_board st) ->
  s_board (go T orc g st) = s_board st.
Proof. exact C09_go_depth_board_thm. Qed.
Print Assumptions C09_go_depth_board.

(* after any sequence of commands (with any number of interrupted searches) the board is the one set by the last
   successful `position` command; [session_ok]: every search that is run starts on a good board *)
Theorem C09_sessions : forall (T : Tables.t) good Q, C03_family T good Q ->
  forall cmds st, session_ok T good Q cmds st -> s_quit (run_commands T cmds st) = false ->
  s_board (run_commands T cmds st) = fold_left (track T) cmds (s_board st).
Proof. exact C09_sessions_thm. Qed.
Print Assumptions C09_sessions.

(* a go writes `info` lines and then exactly one bestmove: the move of the most recent iteration that was not
   aborted ([announced]); only the last iteration of a go can be an aborted one.  No hypothesis at all. *)
Theorem C09_bestmove_from_last_completed : forall (T : Tables.t) orc g st,
  let log := fst (go_full T orc g st) in
  (exists pm l, s_out (go T orc g st) = OBestmove (announced log) pm :: l ++ s_out st /\ forallb is_info l = true) /\
  forallb non_aborted (tl log) = true.
Proof. exact C09_bestmove_from_last_completed_thm. Qed.
Print Assumptions C09_bestmove_from_last_completed.

(* ================================================================================================================
   GLUE (Proofs/ChessInstance.v, Proofs/Preserve.v): the hypothesis [C03_family] is discharged for the concrete chess
   model, and the theorems above are restated for the tables regenerated from the current /repo without any abstract
   hypothesis.  The invariant (its meaning is pinned by C09_good_chess_meaning / C09_ep_free_meaning):
     good_chess T n b := wf b /\ rights_wf b /\ ep_free b /\ is_valid T b /\ half b + n < 4096
       ep_free b     the e.p. square is "none" (0) or an empty square (needed: ChessInstance.ep_free_needed)
       is_valid T b  the side NOT to move is not in check (needed: ChessInstance.is_valid_needed)
   Q = 129 = 1 + 2 * 64 bounds the fuel of the capture search (a u64 has at most 64 set bits).
   RANGE OF HALF-MOVE CLOCKS COVERED: a go of at most D iterations on a board with  half b + D + 130 < 4096.
   ================================================================================================================ *)
Require Ink.Gen.Tables.
Require Import Ink.Lib.Bits Ink.Proofs.GenShape Ink.Proofs.MakeUnmake Ink.Proofs.AttackProofs Ink.Proofs.LayoutProofs.
Require Import Ink.Proofs.Preserve Ink.Proofs.ChessInstance.

Theorem C09_good_chess_meaning : forall (T : Tables.t) (n : nat) (b : board),
  good_chess T n b <->
  wf b = true /\ rights_wf b = true /\ ep_free b = true /\ is_valid T b = true /\ half b + N.of_nat n < 4096.
Proof. exact (fun T n b => iff_refl _). Qed.
Print Assumptions C09_good_chess_meaning.

Theorem C09_ep_free_meaning : forall b : board,
  ep_free b = (ep b =? 0) || negb (N.testbit (N.lor (full_occ (white b)) (full_occ (black b))) (ep b)).
Proof. exact (fun b => eq_refl). Qed.
Print Assumptions C09_ep_free_meaning.

(* executable form of the invariant *)
Theorem C09_good_chessb_spec : forall (T : Tables.t) (n : nat) (b : board), good_chessb T n b = true <-> good_chess T n b.
Proof. exact good_chessb_spec. Qed.
Print Assumptions C09_good_chessb_spec.

(* the invariant is preserved by EVERY generated move (legal or not) out of a position that satisfies it *)
Theorem C09_make_preserves : forall (T : Tables.t),
  tables_castle_ok T = true -> tables_attacks_ok T = true -> tables_bounded T = true ->
  tables_geom_ok T = true -> tables_rank18_ok T = true ->
  forall (b : board) (m : move) (b' : board),
  wf b = true -> rights_wf b = true -> ep_free b = true -> is_valid T b = true ->
  In m (gen_pseudo T b) -> make b m = Some b' ->
  wf b' = true /\ rights_wf b' = true /\ ep_free b' = true /\ half b' <= half b + 1.
Proof. exact make_preserves. Qed.
Print Assumptions C09_make_preserves.

(* a valid position has no pseudo-legal king capture (the generator's attack sets vs the check test, by symmetry) *)
Theorem C09_no_king_capture : forall (T : Tables.t), tables_attacks_ok T = true ->
  forall (b : board) (s t pc att : N), wf b = true -> is_valid T b = true ->
  In (pc, att) (piece_attack_sets T b s) -> N.testbit (occ_of (active b) pc) s = true ->
  N.testbit att t = true -> N.testbit (kings (passive b)) t = false.
Proof. exact no_king_capture_piece. Qed.
Print Assumptions C09_no_king_capture.

Theorem C09_no_king_capture_pawn : forall (T : Tables.t), tables_attacks_ok T = true ->
  forall (b : board) (s t : N), wf b = true -> is_valid T b = true ->
  N.testbit (pawns (active b)) s = true -> N.testbit (pawn_capture_set T b s) t = true ->
  N.testbit (kings (passive b)) t = false.
Proof. exact no_king_capture_pawn. Qed.
Print Assumptions C09_no_king_capture_pawn.

(* C03_family holds for every table set that passes the five boolean table checks ... *)
Theorem C09_chess_C03_family : forall (T : Tables.t), tables_chess_ok T = true -> C03_family T (good_chess T) 129.
Proof. exact chess_C03_family. Qed.
Print Assumptions C09_chess_C03_family.

(* ... and the regenerated tables pass them *)
Theorem C09_gen_tables_chess_ok : tables_chess_ok Ink.Gen.Tables.tables = true.
Proof. exact gen_tables_chess_ok. Qed.
Print Assumptions C09_gen_tables_chess_ok.

Theorem C09_negamax_board_chess : forall orc d ply alpha beta is_pv zh zph st,
  good_chess Ink.Gen.Tables.tables (d + 130) (s_board st) ->
  s_board (snd (negamax Ink.Gen.Tables.tables orc d ply alpha beta is_pv zh zph st)) = s_board st.
Proof. exact ChessInstance.C09_negamax_board_chess. Qed.
Print Assumptions C09_negamax_board_chess.

Theorem C09_quiescence_board_chess : forall fuel alpha beta zph st,
  good_chess Ink.Gen.Tables.tables fuel (s_board st) ->
  s_board (snd (quiescence Ink.Gen.Tables.tables fuel alpha beta zph st)) = s_board st.
Proof. exact ChessInstance.C09_quiescence_board_chess. Qed.
Print Assumptions C09_quiescence_board_chess.

Theorem C09_go_board_chess : forall orc g st D,
  (length (fst (go_full Ink.Gen.Tables.tables orc g st)) <= D)%nat ->
  good_chess Ink.Gen.Tables.tables (D + 130) (s_board st) ->
  s_board (go Ink.Gen.Tables.tables orc g st) = s_board st.
Proof. exact ChessInstance.C09_go_board_chess. Qed.
Print Assumptions C09_go_board_chess.

Theorem C09_go_depth_board_chess : forall orc g st dd, g_depth g = Some dd ->
  good_chess Ink.Gen.Tables.tables (Pos.to_nat (match N.max dd 1 with Npos q => q | N0 => xH end) + 130) (s_board st) ->
  s_board (go Ink.Gen.Tables.tables orc g st) = s_board st.
Proof. exact ChessInstance.C09_go_depth_board_chess. Qed.
Print Assumptions C09_go_depth_board_chess.

Theorem C09_sessions_chess : forall cmds st,
  session_ok Ink.Gen.Tables.tables (good_chess Ink.Gen.Tables.tables) 129 cmds st ->
  s_quit (run_commands Ink.Gen.Tables.tables cmds st) = false ->
  s_board (run_commands Ink.Gen.Tables.tables cmds st) = fold_left (track Ink.Gen.Tables.tables) cmds (s_board st).
Proof. exact ChessInstance.C09_sessions_chess. Qed.
Print Assumptions C09_sessions_chess.

(* the invariant is satisfiable: start position, a castling-rich middlegame, a position with a real e.p. square *)
Theorem C09_good_chess_startpos : good_chess Ink.Gen.Tables.tables 3965 (board_of_text Ink.Model.Fen.STARTPOS).
Proof. exact good_chess_startpos. Qed.
Print Assumptions C09_good_chess_startpos.

(* both extra conjuncts of the invariant are necessary for wf of the successor *)
Theorem C09_ep_free_needed : exists b m b',
  wf b = true /\ rights_wf b = true /\ is_valid Ink.Gen.Tables.tables b = true /\ ep_free b = false /\
  In m (gen_pseudo Ink.Gen.Tables.tables b) /\ make b m = Some b' /\
  is_valid Ink.Gen.Tables.tables b' = true /\ wf b' = false.
Proof. exact ep_free_needed. Qed.
Print Assumptions C09_ep_free_needed.

Theorem C09_is_valid_needed : exists b m b',
  wf b = true /\ rights_wf b = true /\ ep_free b = true /\ is_valid Ink.Gen.Tables.tables b = false /\
  In m (gen_pseudo Ink.Gen.Tables.tables b) /\ make b m = Some b' /\ wf b' = false.
Proof. exact is_valid_needed. Qed.
Print Assumptions C09_is_valid_needed.

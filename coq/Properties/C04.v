(* C04 - Precomputed attack tables equal ray/step attacks for every square and occupancy.
   Model: Model/Board.v (magic_index, magic_lookup_opt, magic_lookup, leaper; precalculated/magic.rs, nonmagic.rs)
   over the regenerated data Gen/Tables.v.  Spec: Spec/Attacks.v (translate, walk, ray_attacks, step_attacks).
   Only pinned statements here; proofs are in Proofs/AttackProofs.v, and the exhaustive per-square obligations
   (all sub-masks of every square's blocker mask: 102,400 rook + 5,248 bishop configurations, 4 x 64 leaper
   entries) are re-checked by vm_compute in the regenerated Gen/Sweep*.v on every run.
   `magic_lookup_opt .. = Some ..` says that both unchecked indexings (square into the 64 configurations, hash
   into the configuration's attack slice) are in range. *)
Require Import NArith ZArith List Bool.
Import ListNotations.
Require Import Ink.Lib.Bits Ink.Model.Tables Ink.Model.Board Ink.Spec.Attacks Ink.Proofs.AttackProofs.
Require Import Ink.Gen.Tables Ink.Gen.SweepAll.
Open Scope N_scope.

(* ---- the current tables pass every sweep ---- *)
Theorem C04_tables_ok : tables_attacks_ok tables = true.
Proof. exact tables_ok. Qed.
Print Assumptions C04_tables_ok.

(* ---- sliders: for EVERY occupancy (any N, no upper bound needed), lookup = geometric slide ---- *)
Theorem C04_sliders : forall sq occ, sq < 64 ->
  magic_lookup_opt (rook_magics tables) sq occ = Some (ray_attacks ORTH sq occ) /\
  magic_lookup_opt (bishop_magics tables) sq occ = Some (ray_attacks DIAG sq occ).
Proof. exact (generic_sliders tables tables_ok). Qed.
Print Assumptions C04_sliders.

Theorem C04_slider_values : forall sq occ, sq < 64 ->
  magic_lookup (rook_magics tables) sq occ = ray_attacks ORTH sq occ /\
  magic_lookup (bishop_magics tables) sq occ = ray_attacks DIAG sq occ.
Proof. exact (generic_slider_values tables tables_ok). Qed.
Print Assumptions C04_slider_values.

(* ---- no lookup leaves its table ---- *)
Theorem C04_index_in_range : forall sq occ, sq < 64 ->
  (exists c, nthN_opt (rook_magics tables) sq = Some c /\
             (N.to_nat (magic_index c occ) < length (mg_attacks c))%nat) /\
  (exists c, nthN_opt (bishop_magics tables) sq = Some c /\
             (N.to_nat (magic_index c occ) < length (mg_attacks c))%nat).
Proof. exact (generic_index_in_range tables tables_ok). Qed.
Print Assumptions C04_index_in_range.

(* ---- leapers: all 4 x 64 entries ---- *)
Theorem C04_leapers : forall sq, sq < 64 ->
  leaper (king_tbl tables) sq = step_attacks KING_DIRS sq /\
  leaper (knight_tbl tables) sq = step_attacks KNIGHT_DIRS sq /\
  leaper (wpawn_tbl tables) sq = step_attacks WPAWN_DIRS sq /\
  leaper (bpawn_tbl tables) sq = step_attacks BPAWN_DIRS sq.
Proof. exact (generic_leapers tables tables_ok). Qed.
Print Assumptions C04_leapers.

(* ---- indexing by a square < 64 is inside every table ---- *)
Theorem C04_square_index :
  length (rook_magics tables) = 64%nat /\ length (bishop_magics tables) = 64%nat /\
  length (king_tbl tables) = 64%nat /\ length (knight_tbl tables) = 64%nat /\
  length (wpawn_tbl tables) = 64%nat /\ length (bpawn_tbl tables) = 64%nat.
Proof. exact (ok_lengths tables tables_ok). Qed.
Print Assumptions C04_square_index.

(* ---- what "ray attacks" means: t is the k-th square of a slide and every square before it is empty ---- *)
Theorem C04_ray_meaning : forall dirs sq occ t, sq < 64 -> (forall d, In d dirs -> d <> (0, 0)%Z) ->
  (N.testbit (ray_attacks dirs sq occ) t = true <->
   exists d k, In d dirs /\ (1 <= k)%nat /\ walk sq d k = Some t /\
     forall j s, (1 <= j < k)%nat -> walk sq d j = Some s -> N.testbit occ s = false).
Proof. exact ray_meaning. Qed.
Print Assumptions C04_ray_meaning.

Theorem C04_rook_meaning : forall sq occ t, sq < 64 ->
  (N.testbit (ray_attacks ORTH sq occ) t = true <->
   exists d k, In d ORTH /\ (1 <= k)%nat /\ walk sq d k = Some t /\
     forall j s, (1 <= j < k)%nat -> walk sq d j = Some s -> N.testbit occ s = false).
Proof. exact rook_meaning. Qed.
Print Assumptions C04_rook_meaning.

Theorem C04_bishop_meaning : forall sq occ t, sq < 64 ->
  (N.testbit (ray_attacks DIAG sq occ) t = true <->
   exists d k, In d DIAG /\ (1 <= k)%nat /\ walk sq d k = Some t /\
     forall j s, (1 <= j < k)%nat -> walk sq d j = Some s -> N.testbit occ s = false).
Proof. exact bishop_meaning. Qed.
Print Assumptions C04_bishop_meaning.

(* ---- what "step attacks" means: one translate, clipped at the board edge ---- *)
Theorem C04_step_meaning : forall dirs sq t,
  N.testbit (step_attacks dirs sq) t = true <-> exists d, In d dirs /\ translate sq d = Some t.
Proof. exact step_meaning. Qed.
Print Assumptions C04_step_meaning.

(* one step stays on the board and moves by exactly (delta_file, delta_rank_index) *)
Theorem C04_translate_meaning : forall sq d t, translate sq d = Some t ->
  t < 64 /\
  Z.of_N (t mod 8) = (Z.of_N (sq mod 8) + fst d)%Z /\ Z.of_N (t / 8) = (Z.of_N (sq / 8) + snd d)%Z.
Proof. exact (fun sq d t H => conj (translate_lt64 sq d t H) (translate_coords sq d t H)). Qed.
Print Assumptions C04_translate_meaning.

(* ---- the reduction used by the sweep: only the relevant squares matter; all sub-masks are enumerated ---- *)
Theorem C04_ray_depends : forall dirs sq occ occ',
  (forall s, In s (relevant dirs sq) -> N.testbit occ s = N.testbit occ' s) ->
  ray_attacks dirs sq occ = ray_attacks dirs sq occ'.
Proof. exact ray_depends. Qed.
Print Assumptions C04_ray_depends.

Theorem C04_subsets_complete : forall l n, NoDup l -> (forall i, N.testbit n i = true -> In i l) -> In n (subsets l).
Proof. exact subsets_complete. Qed.
Print Assumptions C04_subsets_complete.

Theorem C04_sweep_sound : forall dirs sq c, sweep_ok dirs sq c = true ->
  forall occ, nthN_opt (mg_attacks c) (magic_index c occ) = Some (ray_attacks dirs sq occ).
Proof. exact sweep_sound. Qed.
Print Assumptions C04_sweep_sound.

(* ---- generic forms: any table set that passes the boolean check (for proofs that are generic in T) ---- *)
Theorem C04_generic_sliders : forall T, tables_attacks_ok T = true -> forall sq occ, sq < 64 ->
  magic_lookup_opt (rook_magics T) sq occ = Some (ray_attacks ORTH sq occ) /\
  magic_lookup_opt (bishop_magics T) sq occ = Some (ray_attacks DIAG sq occ).
Proof. exact generic_sliders. Qed.
Print Assumptions C04_generic_sliders.

Theorem C04_generic_slider_values : forall T, tables_attacks_ok T = true -> forall sq occ, sq < 64 ->
  magic_lookup (rook_magics T) sq occ = ray_attacks ORTH sq occ /\
  magic_lookup (bishop_magics T) sq occ = ray_attacks DIAG sq occ.
Proof. exact generic_slider_values. Qed.
Print Assumptions C04_generic_slider_values.

Theorem C04_generic_leapers : forall T, tables_attacks_ok T = true -> forall sq, sq < 64 ->
  leaper (king_tbl T) sq = step_attacks KING_DIRS sq /\
  leaper (knight_tbl T) sq = step_attacks KNIGHT_DIRS sq /\
  leaper (wpawn_tbl T) sq = step_attacks WPAWN_DIRS sq /\
  leaper (bpawn_tbl T) sq = step_attacks BPAWN_DIRS sq.
Proof. exact generic_leapers. Qed.
Print Assumptions C04_generic_leapers.

(* C01 - Legal move generation is exactly the rules of chess.
   Model: Model/Board.v (gen_pseudo = generate_pseudo_legal_moves, gen_nonquiet = generate_pseudo_legal_non_quiescent_moves,
   gen_legal / is_move_legal = make + is_valid, make; board/src/board.rs) over a table set T.
   Spec: Spec/Rules.v (pseudo_moves, piece_moves, legal, legal_moves, capture_or_promotion, legal_pos) on the
   abstraction Proofs/Abs.v (abs : board -> pos; uci_of : move -> mv = the UCI triple from/to/promotion).
   Only pinned statements here; the proofs are in Proofs/MoveGenProofs.v.

   Side conditions
     tables_attacks_ok T    the C04 sweep (magic and leaper lookups = geometric attack sets); Gen: SweepAll.tables_ok
     tables_movegen_ok T    RANK_1/2/7/8 and the eight castling EMPTY/CHECK masks are the real masks (implies
                            LayoutProofs.tables_geom_ok and MakeUnmake.tables_castle_ok); Gen: C01_tables_movegen_ok
     wf b                   Model/Board.v
     rights_wf b            a held castling right implies king and rook at home (MakeUnmake.v; necessary: the
                            generator never looks at the king square when it castles)
     ep_bits_ok b           the e.p. square is NO_SQUARE (= 0 = a8), or it is empty, on the mover's 6th rank and an
                            enemy pawn stands right behind it (necessary: the code only masks ranks 1/8 out of the
                            e.p. bit, and the non-quiescent generator emits every pawn "capture" unfiltered)
   rights_wf and ep_bits_ok follow from `Rules.legal_pos (abs b) = true` (C01_legal_pos_conditions), so every
   statement is also given for "wf b and legal_pos (abs b)" = all legal positions.
   The legality-filter statements (C01_legal_exact, C01_terminal) take property C02 (make commutes with
   Rules.apply and keeps wf) for the board at hand as an explicit hypothesis `Hmake`. *)
Require Import Ink.Lib.Str.
Require Import NArith ZArith List Bool.
Import ListNotations.
Require Import Ink.Lib.Bits Ink.Model.Tables Ink.Model.Board Ink.Model.Fen Ink.Spec.Rules.
Require Import Ink.Proofs.Abs Ink.Proofs.AttackProofs Ink.Proofs.AbsProofs Ink.Proofs.LayoutProofs Ink.Proofs.MakeUnmake.
Require Import Ink.Proofs.MoveGenProofs.
Require Import Ink.Gen.Tables Ink.Gen.SweepAll.
Open Scope N_scope.

(* ================================================================== *)
(* side conditions                                                     *)
(* ================================================================== *)

Theorem C01_tables_movegen_ok : tables_movegen_ok Ink.Gen.Tables.tables = true.
Proof. exact gen_tables_movegen_ok. Qed.
Print Assumptions C01_tables_movegen_ok.

Theorem C01_tables_movegen_implies : forall T, tables_movegen_ok T = true ->
  tables_geom_ok T = true /\ tables_castle_ok T = true.
Proof. exact (fun T H => conj (tables_movegen_geom T H) (tables_movegen_castle T H)). Qed.
Print Assumptions C01_tables_movegen_implies.

(* a legal position of the rules satisfies the two board-side conditions *)
Theorem C01_legal_pos_conditions : forall b, wf b = true -> legal_pos (abs b) = true ->
  rights_wf b = true /\ ep_bits_ok b = true.
Proof. exact legal_pos_conditions. Qed.
Print Assumptions C01_legal_pos_conditions.

(* ================================================================== *)
(* the generator as a list of UCI triples, component by component      *)
(* ================================================================== *)

(* `u_common T b` is the traversal of gen_common written on triples: queens (rook part, bishop part), bishops,
   rooks, knights, kings, pawn captures, pawn pushes; tri s t pr = (from s, to t, promotion piece pr) *)
Theorem C01_generator_shape : forall T, tables_attacks_ok T = true -> tables_movegen_ok T = true ->
  forall b, wf b = true ->
  map uci_of (gen_pseudo T b) =
  u_common T b ++ map uci_of (castle_moves T b (N.lor (full_occ (active b)) (full_occ (passive b)))).
Proof. exact map_uci_gen_pseudo. Qed.
Print Assumptions C01_generator_shape.

(* knights, bishops, rooks, queens, king steps: attacked squares (Spec/Attacks.v sets) minus own pieces *)
Theorem C01_piece_moves : forall b c k s u, wf b = true -> s < 64 ->
  (In u (map (fun t => {| from := Z.of_N s; to := t; prom := None |})
             (filter (fun t => negb (own (abs b) c t)) (attacked_from (abs b) (Z.of_N s) (c, k)))) <->
   In u (std_from s (clear (att_bb b c k s) (full_occ (pside b c))))).
Proof. exact spec_std_iff. Qed.
Print Assumptions C01_piece_moves.

(* pawn pushes, double pushes and push promotions: even the same LIST per pawn *)
Theorem C01_pawn_pushes : forall b s, wf b = true -> N.testbit (bb_of b (mover b) Pawn) s = true ->
  spec_push (abs b) (mover b) (Z.of_N s) = u_push (is_white_turn b) (total_occ b) s.
Proof. exact spec_push_model. Qed.
Print Assumptions C01_pawn_pushes.

(* pawn captures, capture promotions and en passant *)
Theorem C01_pawn_captures : forall T, tables_attacks_ok T = true -> tables_movegen_ok T = true ->
  forall b s u, wf b = true -> ep_bits_ok b = true -> N.testbit (bb_of b (mover b) Pawn) s = true ->
  (In u (spec_caps (abs b) (mover b) (Z.of_N s)) <->
   In u (u_caps (cap_set T b (full_occ (active b)) (full_occ (passive b)) s) s)).
Proof. exact spec_caps_model. Qed.
Print Assumptions C01_pawn_captures.

(* castling: right held, EMPTY mask free, CHECK squares (king, transit, target) not attacked *)
Theorem C01_castling : forall T, tables_attacks_ok T = true -> tables_movegen_ok T = true ->
  forall b u, wf b = true -> rights_wf b = true ->
  (In u (map uci_of (castle_moves T b (N.lor (full_occ (active b)) (full_occ (passive b))))) <->
   In u (spec_castle (abs b) (mover b) (Z.of_N (king_of b (mover b))))).
Proof. exact castle_spec. Qed.
Print Assumptions C01_castling.

Theorem C01_piece_moves_split : forall p s c,
  piece_moves p s (c, Pawn) = spec_push p c s ++ spec_caps p c s /\
  piece_moves p s (c, King) = spec_std p c King s ++ spec_castle p c s /\
  (forall k, k <> Pawn -> k <> King -> piece_moves p s (c, k) = spec_std p c k s).
Proof. exact (fun p s c => conj (piece_moves_pawn p s c) (conj (piece_moves_king p s c) (piece_moves_other p s c))). Qed.
Print Assumptions C01_piece_moves_split.

(* ================================================================== *)
(* pseudo-legal moves                                                  *)
(* ================================================================== *)

Theorem C01_pseudo_exact : forall T, tables_attacks_ok T = true -> tables_movegen_ok T = true ->
  forall b, wf b = true -> rights_wf b = true -> ep_bits_ok b = true ->
  (forall u, In u (map uci_of (gen_pseudo T b)) <-> In u (pseudo_moves (abs b))) /\
  NoDup (map uci_of (gen_pseudo T b)).
Proof. exact MoveGenProofs.C01_pseudo_exact. Qed.
Print Assumptions C01_pseudo_exact.

(* ================================================================== *)
(* the capture/promotion-only generator                                *)
(* ================================================================== *)

(* same traversal with the `non_quiescent_only` early return: LIST equality, same order; and noisy = capture or
   promotion of the rules (castling moves are never noisy) *)
Theorem C01_nonquiet_exact : forall T, tables_attacks_ok T = true -> tables_movegen_ok T = true ->
  forall b, wf b = true -> rights_wf b = true -> ep_bits_ok b = true ->
  gen_nonquiet T b = filter (fun m => is_attack m || is_promotion m) (gen_common T b false) /\
  (forall m, In m (gen_pseudo T b) ->
     (is_attack m || is_promotion m = true <-> capture_or_promotion (abs b) (uci_of m) = true)).
Proof. exact MoveGenProofs.C01_nonquiet_exact. Qed.
Print Assumptions C01_nonquiet_exact.

(* the list equality alone needs only the masks and the e.p. condition *)
Theorem C01_nonquiet_list : forall T, tables_movegen_ok T = true -> forall b, ep_bits_ok b = true ->
  gen_nonquiet T b = filter (fun m => is_attack m || is_promotion m) (gen_common T b false).
Proof. exact nonquiet_filter. Qed.
Print Assumptions C01_nonquiet_list.

Theorem C01_castling_quiet : forall T b m, tables_movegen_ok T = true ->
  In m (castle_moves T b (N.lor (full_occ (active b)) (full_occ (passive b)))) -> is_attack m || is_promotion m = false.
Proof. exact castle_quiet. Qed.
Print Assumptions C01_castling_quiet.

(* exactly the capture-or-promotion subset of the pseudo-legal moves, no duplicates *)
Theorem C01_nonquiet_members : forall T, tables_attacks_ok T = true -> tables_movegen_ok T = true ->
  forall b, wf b = true -> rights_wf b = true -> ep_bits_ok b = true ->
  (forall u, In u (map uci_of (gen_nonquiet T b)) <->
             In u (filter (capture_or_promotion (abs b)) (pseudo_moves (abs b)))) /\
  NoDup (map uci_of (gen_nonquiet T b)).
Proof. exact MoveGenProofs.C01_nonquiet_members. Qed.
Print Assumptions C01_nonquiet_members.

(* ================================================================== *)
(* the legality filter (what perft and the search do)                  *)
(* ================================================================== *)

Theorem C01_filter_path : forall T b,
  filter (fun m => match make b m with Some b' => is_valid T b' | None => false end) (gen_pseudo T b) = gen_legal T b.
Proof. exact MoveGenProofs.C01_filter_path. Qed.
Print Assumptions C01_filter_path.

(* Hmake = property C02 for the board b *)
Theorem C01_legal_exact : forall T, tables_attacks_ok T = true -> tables_movegen_ok T = true ->
  forall b, wf b = true -> rights_wf b = true -> ep_bits_ok b = true ->
  (forall m, In m (gen_pseudo T b) ->
     exists b', make b m = Some b' /\ wf b' = true /\ abs b' = Rules.apply (abs b) (uci_of m)) ->
  (forall u, In u (map uci_of (gen_legal T b)) <-> In u (legal_moves (abs b))) /\
  NoDup (map uci_of (gen_legal T b)).
Proof. exact MoveGenProofs.C01_legal_exact. Qed.
Print Assumptions C01_legal_exact.

(* discharges the hypothesis Hgen of CheckProofs.terminal_checkmate / terminal_stalemate (C05_terminal) *)
Theorem C01_terminal : forall T, tables_attacks_ok T = true -> tables_movegen_ok T = true ->
  forall b, wf b = true -> rights_wf b = true -> ep_bits_ok b = true ->
  (forall m, In m (gen_pseudo T b) ->
     exists b', make b m = Some b' /\ wf b' = true /\ abs b' = Rules.apply (abs b) (uci_of m)) ->
  (gen_legal T b = [] <-> legal_moves (abs b) = []).
Proof. exact MoveGenProofs.C01_terminal. Qed.
Print Assumptions C01_terminal.

(* ================================================================== *)
(* all legal positions, tables of the current tree                     *)
(* ================================================================== *)

Theorem C01_pseudo_exact_gen : forall b, wf b = true -> legal_pos (abs b) = true ->
  (forall u, In u (map uci_of (gen_pseudo tables b)) <-> In u (pseudo_moves (abs b))) /\
  NoDup (map uci_of (gen_pseudo tables b)).
Proof.
  exact (fun b Hwf Hl =>
    MoveGenProofs.C01_pseudo_exact tables tables_ok gen_tables_movegen_ok b Hwf
      (proj1 (legal_pos_conditions b Hwf Hl)) (proj2 (legal_pos_conditions b Hwf Hl))).
Qed.
Print Assumptions C01_pseudo_exact_gen.

Theorem C01_nonquiet_members_gen : forall b, wf b = true -> legal_pos (abs b) = true ->
  (forall u, In u (map uci_of (gen_nonquiet tables b)) <->
             In u (filter (capture_or_promotion (abs b)) (pseudo_moves (abs b)))) /\
  NoDup (map uci_of (gen_nonquiet tables b)).
Proof.
  exact (fun b Hwf Hl =>
    MoveGenProofs.C01_nonquiet_members tables tables_ok gen_tables_movegen_ok b Hwf
      (proj1 (legal_pos_conditions b Hwf Hl)) (proj2 (legal_pos_conditions b Hwf Hl))).
Qed.
Print Assumptions C01_nonquiet_members_gen.

Theorem C01_nonquiet_exact_gen : forall b, wf b = true -> legal_pos (abs b) = true ->
  gen_nonquiet tables b = filter (fun m => is_attack m || is_promotion m) (gen_common tables b false) /\
  (forall m, In m (gen_pseudo tables b) ->
     (is_attack m || is_promotion m = true <-> capture_or_promotion (abs b) (uci_of m) = true)).
Proof.
  exact (fun b Hwf Hl =>
    MoveGenProofs.C01_nonquiet_exact tables tables_ok gen_tables_movegen_ok b Hwf
      (proj1 (legal_pos_conditions b Hwf Hl)) (proj2 (legal_pos_conditions b Hwf Hl))).
Qed.
Print Assumptions C01_nonquiet_exact_gen.

Theorem C01_legal_exact_gen : forall b, wf b = true -> legal_pos (abs b) = true ->
  (forall m, In m (gen_pseudo tables b) ->
     exists b', make b m = Some b' /\ wf b' = true /\ abs b' = Rules.apply (abs b) (uci_of m)) ->
  (forall u, In u (map uci_of (gen_legal tables b)) <-> In u (legal_moves (abs b))) /\
  NoDup (map uci_of (gen_legal tables b)) /\
  (gen_legal tables b = [] <-> legal_moves (abs b) = []).
Proof.
  exact (fun b Hwf Hl Hmake =>
    let Hr := proj1 (legal_pos_conditions b Hwf Hl) in
    let He := proj2 (legal_pos_conditions b Hwf Hl) in
    conj (proj1 (MoveGenProofs.C01_legal_exact tables tables_ok gen_tables_movegen_ok b Hwf Hr He Hmake))
      (conj (proj2 (MoveGenProofs.C01_legal_exact tables tables_ok gen_tables_movegen_ok b Hwf Hr He Hmake))
            (MoveGenProofs.C01_terminal tables tables_ok gen_tables_movegen_ok b Hwf Hr He Hmake))).
Qed.
Print Assumptions C01_legal_exact_gen.

(* ================================================================== *)
(* examples (vm_compute on both sides)                                 *)
(* ================================================================== *)

Definition kind_eq (a b : option kind) : bool :=
  match a, b with Some x, Some y => kind_eqb x y | None, None => true | _, _ => false end.
Definition mv_eqb (a b : mv) : bool := (from a =? from b)%Z && (to a =? to b)%Z && kind_eq (prom a) (prom b).
Definition subset (l1 l2 : list mv) : bool := forallb (fun u => existsb (mv_eqb u) l2) l1.
Definition same_set (l1 l2 : list mv) : bool := subset l1 l2 && subset l2 l1 && Nat.eqb (length l1) (length l2).
Definition has (l : list mv) (s : str) : bool := existsb (fun u => str_eqb (uci u) s) l.

(* (side conditions: wf, rights_wf, ep_bits_ok, legal_pos;
    #pseudo model, #pseudo rules, same set; #nonquiet model, #capture-or-promotion rules, same set;
    #legal model, #legal rules, same set) *)
Definition observe (fen : str) :=
  match from_fen_string fen with
  | inr b =>
      let p := abs b in
      let mp := map uci_of (gen_pseudo tables b) in
      let mn := map uci_of (gen_nonquiet tables b) in
      let ml := map uci_of (gen_legal tables b) in
      let sn := filter (capture_or_promotion p) (pseudo_moves p) in
      Some ((wf b, rights_wf b, ep_bits_ok b, legal_pos p),
            (length mp, length (pseudo_moves p), same_set mp (pseudo_moves p)),
            (length mn, length sn, same_set mn sn),
            (length ml, length (legal_moves p), same_set ml (legal_moves p)))
  | inl _ => None
  end.

(* the start position: 20 moves on both sides of the equivalence, for both colours *)
Example C01_ex_start :
  observe (lit "rnbqkbnr/pppppppp/8/8/8/8/PPPPPPPP/RNBQKBNR w KQkq - 0 1") =
    Some ((true, true, true, true), (20, 20, true), (0, 0, true), (20, 20, true))%nat /\
  observe (lit "rnbqkbnr/pppppppp/8/8/8/8/PPPPPPPP/RNBQKBNR b KQkq - 0 1") =
    Some ((true, true, true, true), (20, 20, true), (0, 0, true), (20, 20, true))%nat.
Proof. split; vm_compute; reflexivity. Qed.

(* e.p. and both castlings available: e5xd6 e.p., O-O, O-O-O are offered by both *)
Example C01_ex_ep_castling :
  observe (lit "r3k2r/8/8/3pP3/8/8/8/R3K2R w KQkq d6 0 1") =
    Some ((true, true, true, true), (28, 28, true), (3, 3, true), (28, 28, true))%nat /\
  match from_fen_string (lit "r3k2r/8/8/3pP3/8/8/8/R3K2R w KQkq d6 0 1") with
  | inr b =>
      let ml := map uci_of (gen_legal tables b) in
      let sl := legal_moves (abs b) in
      forallb (fun s => has ml s && has sl s) [lit "e5d6"; lit "e1g1"; lit "e1c1"] = true /\
      has (map uci_of (gen_nonquiet tables b)) (lit "e5d6") = true /\
      has (map uci_of (gen_nonquiet tables b)) (lit "e1g1") = false
  | inl _ => False end.
Proof. split; [vm_compute; reflexivity|]. vm_compute. repeat split; reflexivity. Qed.

(* a pinned knight: Ne2-d4 is pseudo-legal on both sides and legal on neither *)
Example C01_ex_pinned :
  observe (lit "4k3/8/8/8/8/4r3/4N3/4K3 w - - 0 1") =
    Some ((true, true, true, true), (10, 10, true), (0, 0, true), (4, 4, true))%nat /\
  match from_fen_string (lit "4k3/8/8/8/8/4r3/4N3/4K3 w - - 0 1") with
  | inr b =>
      has (map uci_of (gen_pseudo tables b)) (lit "e2d4") = true /\ has (pseudo_moves (abs b)) (lit "e2d4") = true /\
      has (map uci_of (gen_legal tables b)) (lit "e2d4") = false /\ has (legal_moves (abs b)) (lit "e2d4") = false
  | inl _ => False end.
Proof. split; [vm_compute; reflexivity|]. vm_compute. repeat split; reflexivity. Qed.

(* promotions and under-promotions, with and without capture; black to move *)
Example C01_ex_promotions :
  observe (lit "4k3/8/8/8/8/8/1p6/R1N1K3 b - - 0 1") =
    Some ((true, true, true, true), (17, 17, true), (12, 12, true), (17, 17, true))%nat.
Proof. vm_compute. reflexivity. Qed.

(* the e.p. condition is necessary: with a bogus e.p. square (no pawn behind it) the unfiltered pawn "capture"
   e5d6 of the non-quiescent generator is not a capture for the model's own is_attack *)
Example C01_needs_ep_bits_ok :
  match from_fen_string (lit "4k3/8/8/4P3/8/8/8/4K3 w - d6 0 1") with
  | inr b =>
      wf b = true /\ ep_bits_ok b = false /\
      gen_nonquiet tables b <> filter (fun m => is_attack m || is_promotion m) (gen_common tables b false)
  | inl _ => False end.
Proof. vm_compute. repeat split; try reflexivity. discriminate. Qed.

(* Property C08 (and its use in C09), "irrespective of what was searched before on the same engine instance".
   Lemmas: Proofs/C08History.v.  Only pinned statements.

   Properties/C08_closed.v states the concrete theorems under [history_fresh]: NO inspected entry of the history the go
   starts from equals the key of the inspecting tree position.  After an earlier search of the same position the history
   holds that search's entries at indices above the root's ply clock; from depth 5 on (index clock(y) - 4 >= clock(root) + 1)
   such an entry is inspected and can equal a key of the new tree: C08_stale_entries_break_history_fresh is a computed
   instance.  These entries are never READ as they are: every node stores its key at its ply clock before its repetition
   test, so every index of a ply between the root and the node holds the key of the node's ancestor when it is inspected.

   1. [history_fresh_below] (C08_history_fresh_below_def) constrains only inspected indices strictly below the root's ply
      clock -- the game history; the entry AT the root's clock is rewritten by the root visit of every iteration and is not
      constrained.  [history_fresh_path] (C08_history_fresh_path_def) is the exact premise (inspected indices that are not
      the clock of a smaller ply; it differs from _below only when the u16 ply clock wraps inside the tree).
      history_fresh -> history_fresh_below -> history_fresh_path; for D <= 3 the first two coincide.
      The invariant is [HIB] (C08_HIB_def); the contents of h0 at the indices of the plies above the root are ARBITRARY.
      C08_no_repetition_leaf_below, C08_negamax_refines_below, C08_go_depth_closed_tables_below (parametric in sim exactly as
      C08_go_depth_closed_tables), C08_go_depth_closed_below, C08_reported_score_exact_below; at depth 1 no premise on keys
      is left (C08_depth1_closed_below, C08_depth1_reported_below).
   2. Sessions.  set_position_from installs a NEW history (search.rs: `ZobristHistory::default()` + the positions of the
      command): after `position fen X` every entry except the root's own is 0, whatever the engine did before
      (C08_position_installs_new_history); nothing of an earlier game survives, so there is no finding against C08 here.
      A go -- ANY oracle: stopped, aborted at any node, any clock -- writes only at the ply clocks of the plies 0..D below
      its root (C08_go_history_writes), i.e. at indices >= the root's clock unless the u16 clock wraps within D plies
      (C08_go_history_below); so history_fresh_below survives any number of searches (C08_searches_keep_fresh_below) and
      holds after `position fen X` + searches as soon as no inspecting key is 0
      (C08_fresh_below_after_position_and_searches, C08_reported_score_after_position_and_searches).
   3. C09_depth1_score_state_independent, C09_depth1_after_searches.
   4. C08_second_go_premises / C08_two_consecutive_go: two `go depth 2` on one engine, half-move clock 40. *)
Require Import Ink.Lib.Str.
Require Import NArith ZArith List Bool Lia.
Import ListNotations.
Require Import Ink.Lib.Bits Ink.Model.Tables Ink.Model.Board Ink.Model.Fen Ink.Model.History Ink.Model.Heuristic Ink.Model.UciTx
        Ink.Model.Search.
Require Import Ink.Spec.Minimax.
Require Import Ink.Proofs.AttackProofs Ink.Proofs.MoveGenProofs.
Require Import Ink.Proofs.SearchProofs Ink.Proofs.SessionProofs Ink.Proofs.ChessGame Ink.Proofs.SearchRefine Ink.Proofs.C08Chess.
Require Import Ink.Proofs.C08Closed Ink.Proofs.C08History.
Open Scope N_scope.

(* ================================================================== *)
(* 1. the premises, the invariant, no repetition leaf                  *)

Theorem C08_history_fresh_below_def : forall (T : Tables.t) (h : hist) (D : nat) (root : board),
  history_fresh_below T h D root <->
  forall (i : nat) (y : board) (x : N), (1 <= i <= D)%nat -> at_ply board (ChessGame.succs T) root i y ->
    x mod 2 = ply_clock_w y mod 2 -> x + 4 <= ply_clock_w y -> ply_clock_w y - half y mod 65536 <= x ->
    x < ply_clock_w root ->
    hget h x <> zobrist_hash T y.
Proof. exact history_fresh_below_iff. Qed.
Print Assumptions C08_history_fresh_below_def.

Theorem C08_history_fresh_path_def : forall (T : Tables.t) (h : hist) (D : nat) (root : board),
  history_fresh_path T h D root <->
  forall (i : nat) (y : board) (x : N), (1 <= i <= D)%nat -> at_ply board (ChessGame.succs T) root i y ->
    x mod 2 = ply_clock_w y mod 2 -> x + 4 <= ply_clock_w y -> ply_clock_w y - half y mod 65536 <= x ->
    (forall (j : nat) (y' : board), (j < i)%nat -> at_ply board (ChessGame.succs T) root j y' -> ply_clock_w y' <> x) ->
    hget h x <> zobrist_hash T y.
Proof. exact history_fresh_path_iff. Qed.
Print Assumptions C08_history_fresh_path_def.

(* the old premise implies the new one; the new one implies the exact one *)
Theorem C08_history_fresh_implies_below : forall (T : Tables.t) (h : hist) (D : nat) (root : board),
  history_fresh T h D root -> history_fresh_below T h D root.
Proof. exact fresh_fresh_below. Qed.
Print Assumptions C08_history_fresh_implies_below.

Theorem C08_history_fresh_below_implies_path : forall (T : Tables.t) (h : hist) (D : nat) (root : board),
  RepetitionProofs.clock_ok root -> history_fresh_below T h D root -> history_fresh_path T h D root.
Proof. exact fresh_below_path. Qed.
Print Assumptions C08_history_fresh_below_implies_path.

(* up to depth 3 (no u16 wrap) no inspected index reaches the root's clock: the old and the new premise coincide there *)
Theorem C08_history_fresh_below_small_depth : forall (T : Tables.t) (h : hist) (D : nat) (root : board),
  RepetitionProofs.clock_ok root -> (D <= 3)%nat -> ply_clock_w root + N.of_nat D < 65536 ->
  history_fresh_below T h D root -> history_fresh T h D root.
Proof. exact fresh_below_fresh_small. Qed.
Print Assumptions C08_history_fresh_below_small_depth.

Theorem C08_HIB_def : forall (T : Tables.t) (h0 : hist) (D : nat) (root : board) (i : nat) (h : hist),
  HIB T h0 D root i h <->
  forall x, (hget h x = hget h0 x /\
             forall (j : nat) (y' : board), (j < i)%nat -> at_ply board (ChessGame.succs T) root j y' -> ply_clock_w y' <> x) \/
            exists (j : nat) (y : board), (j <= D)%nat /\ at_ply board (ChessGame.succs T) root j y /\ ply_clock_w y = x /\
                                          hget h x = zobrist_hash T y.
Proof. exact HIB_def. Qed.
Print Assumptions C08_HIB_def.

(* it holds at the root for h0 itself, whatever h0 is ... *)
Theorem C08_HIB_init : forall (T : Tables.t) (h0 : hist) (D : nat) (root : board), HIB T h0 D root 0 h0.
Proof. exact HIB_init. Qed.
Print Assumptions C08_HIB_init.

(* ... a node at ply i stores its key: the invariant of the plies below it; and it can be handed back upwards *)
Theorem C08_HIB_set : forall (T : Tables.t) (h0 : hist) (D : nat) (root : board) (i : nat) (h : hist) (y : board),
  RepetitionProofs.clock_ok root -> HIB T h0 D root i h -> (i <= D)%nat -> at_ply board (ChessGame.succs T) root i y ->
  HIB T h0 D root (S i) (hset h (ply_clock_w y) (zobrist_hash T y)).
Proof. exact HIB_set. Qed.
Print Assumptions C08_HIB_set.

Theorem C08_HIB_weaken : forall (T : Tables.t) (h0 : hist) (D : nat) (root : board) (i j : nat) (h : hist),
  (j <= i)%nat -> HIB T h0 D root i h -> HIB T h0 D root j h.
Proof. exact HIB_weaken. Qed.
Print Assumptions C08_HIB_weaken.

(* no node of the tree takes the repetition leaf, for an ARBITRARY content of h0 at the indices of the plies above the root *)
Theorem C08_no_repetition_leaf_below : forall (T : Tables.t) (sim : nat -> board -> board -> Prop) (h0 : hist) (D : nat)
    (root : board) (h : hist) (i : nat) (y : board),
  RepetitionProofs.clock_ok root -> ply_unique board (ChessGame.succs T) (zobrist_hash T) sim D root ->
  history_fresh_path T h0 D root -> HIB T h0 D root i h -> (i <= D)%nat -> at_ply board (ChessGame.succs T) root i y ->
  snd (visit h (N.of_nat i) (ply_clock_w y) (zobrist_hash T y) (half y)) = false.
Proof. exact HIB_visit. Qed.
Print Assumptions C08_no_repetition_leaf_below.

(* depth 1: no premise on keys (the root's index has the other parity, the node's own index is not inspected) *)
Theorem C08_no_repetition_leaf_depth1 : forall (T : Tables.t) (h0 : hist) (root : board) (h : hist) (i : nat) (y : board),
  RepetitionProofs.clock_ok root -> history_fresh_path T h0 1 root ->
  HIB T h0 1 root i h -> (i <= 1)%nat -> at_ply board (ChessGame.succs T) root i y ->
  snd (visit h (N.of_nat i) (ply_clock_w y) (zobrist_hash T y) (half y)) = false.
Proof. exact HIB_visit_1. Qed.
Print Assumptions C08_no_repetition_leaf_depth1.

(* ================================================================== *)
(* 2. refinement, go depth, what is printed                            *)

(* node level (counterpart of C08_negamax_refines_any_clock); [node_okB] spells it out (Proofs/C08History.v): a node at ply i
   receives HIB i and hands HIB i back *)
Theorem C08_negamax_refines_below : forall T : Tables.t, ZobristProofs.gen_masks_ok T = true ->
  forall (good : nat -> board -> Prop) (Q : nat), C03_family T good Q ->
  (forall n b, good n b -> sane b = true) ->
  ZobristProofs.keys_rows_ok T = true ->
  (forall n b, good n b -> (- win_score T < ChessGame.static T b < win_score T)%Z) ->
  forall orc : oracle, quiet orc ->
  forall (sim : nat -> board -> board -> Prop) (root : board) (D : nat) (h0 : hist),
  RepetitionProofs.clock_ok root -> ply_unique board (ChessGame.succs T) (zobrist_hash T) sim D root ->
  history_fresh_path T h0 D root ->
  forall K : nat, ((K <= 1)%nat \/ ND T good) -> forall k : nat, (k <= K)%nat ->
  node_okB T good Q (static_sat T) orc root D h0 k.
Proof. exact negamax_refines_closedB. Qed.
Print Assumptions C08_negamax_refines_below.

(* ---- `go depth dd`, any table set, parametric in sim exactly as C08_go_depth_closed_tables ---- *)
Theorem C08_go_depth_closed_tables_below : forall (T : Tables.t) (good : nat -> board -> Prop) (Q : nat),
  tables_attacks_ok T = true -> tables_movegen_ok T = true ->
  ZobristProofs.gen_masks_ok T = true -> ZobristProofs.keys_rows_ok T = true -> (0 < win_score T)%Z ->
  C03_family T good Q ->
  (forall n b, good n b -> sane b = true) -> (forall n b, good n b -> 1 <= full b) ->
  (forall n b, good n b -> (- win_score T < ChessGame.static T b < win_score T)%Z) ->
  forall orc : oracle, quiet orc ->
  forall sim : nat -> board -> board -> Prop,
  (forall (r' r : nat) (x y : board), sim r' x y -> (r <= r')%nat ->
     nm board (ChessGame.succs T) (ChessGame.noisy_succs T) (ChessGame.noisy_any T) (static_sat T) (ChessGame.terminal T)
        ChessGame.qmeasure r x =
     nm board (ChessGame.succs T) (ChessGame.noisy_succs T) (ChessGame.noisy_any T) (static_sat T) (ChessGame.terminal T)
        ChessGame.qmeasure r y) ->
  (forall (r r' : nat) (x y : board), (r <= r')%nat -> sim r' x y -> sim r x y) ->
  forall (g : go_params) (st : sstate) (dd : N), g_depth g = Some dd -> plain_go g ->
  good (depth_of dd + S Q)%nat (s_board st) ->
  ply_unique board (ChessGame.succs T) (zobrist_hash T) sim (depth_of dd) (s_board st) ->
  history_fresh_below T (s_history st) (depth_of dd) (s_board st) ->
  root_empty T (s_board st) = false -> inb T (depth_of dd) (s_board st) ->
  Forall (fun it => exists d : nat, (S d <= depth_of dd)%nat /\ exact_rec T (static_sat T) (s_board st) d it)
         (fst (go_full T orc g st)) /\
  (ChessGame.succs T (s_board st) <> [] ->
   exists it rest, fst (go_full T orc g st) = it :: rest /\
                   exact_rec T (static_sat T) (s_board st) (pred (depth_of dd)) it).
Proof. exact go_depth_closed_tablesB. Qed.
Print Assumptions C08_go_depth_closed_tables_below.

(* the same under the exact premise *)
Theorem C08_go_depth_closed_tables_path : forall (T : Tables.t) (good : nat -> board -> Prop) (Q : nat),
  tables_attacks_ok T = true -> tables_movegen_ok T = true ->
  ZobristProofs.gen_masks_ok T = true -> ZobristProofs.keys_rows_ok T = true -> (0 < win_score T)%Z ->
  C03_family T good Q ->
  (forall n b, good n b -> sane b = true) -> (forall n b, good n b -> 1 <= full b) ->
  (forall n b, good n b -> (- win_score T < ChessGame.static T b < win_score T)%Z) ->
  forall orc : oracle, quiet orc ->
  forall sim : nat -> board -> board -> Prop,
  (forall (r' r : nat) (x y : board), sim r' x y -> (r <= r')%nat ->
     nm board (ChessGame.succs T) (ChessGame.noisy_succs T) (ChessGame.noisy_any T) (static_sat T) (ChessGame.terminal T)
        ChessGame.qmeasure r x =
     nm board (ChessGame.succs T) (ChessGame.noisy_succs T) (ChessGame.noisy_any T) (static_sat T) (ChessGame.terminal T)
        ChessGame.qmeasure r y) ->
  (forall (r r' : nat) (x y : board), (r <= r')%nat -> sim r' x y -> sim r x y) ->
  forall (g : go_params) (st : sstate) (dd : N), g_depth g = Some dd -> plain_go g ->
  good (depth_of dd + S Q)%nat (s_board st) ->
  ply_unique board (ChessGame.succs T) (zobrist_hash T) sim (depth_of dd) (s_board st) ->
  history_fresh_path T (s_history st) (depth_of dd) (s_board st) ->
  root_empty T (s_board st) = false -> inb T (depth_of dd) (s_board st) ->
  Forall (fun it => exists d : nat, (S d <= depth_of dd)%nat /\ exact_rec T (static_sat T) (s_board st) d it)
         (fst (go_full T orc g st)) /\
  (ChessGame.succs T (s_board st) <> [] ->
   exists it rest, fst (go_full T orc g st) = it :: rest /\
                   exact_rec T (static_sat T) (s_board st) (pred (depth_of dd)) it).
Proof. exact go_depth_closed_tablesB_path. Qed.
Print Assumptions C08_go_depth_closed_tables_path.

(* ---- the tables of the current tree ---- *)
Theorem C08_go_depth_closed_below : forall orc : oracle, quiet orc ->
  forall sim : nat -> board -> board -> Prop,
  (forall (r' r : nat) (x y : board), sim r' x y -> (r <= r')%nat ->
     nm board (ChessGame.succs GT) (ChessGame.noisy_succs GT) (ChessGame.noisy_any GT) (static_sat GT) (ChessGame.terminal GT)
        ChessGame.qmeasure r x =
     nm board (ChessGame.succs GT) (ChessGame.noisy_succs GT) (ChessGame.noisy_any GT) (static_sat GT) (ChessGame.terminal GT)
        ChessGame.qmeasure r y) ->
  (forall (r r' : nat) (x y : board), (r <= r')%nat -> sim r' x y -> sim r x y) ->
  forall (g : go_params) (st : sstate) (dd : N), g_depth g = Some dd -> plain_go g ->
  goodC (depth_of dd + 130)%nat (s_board st) ->
  ply_unique board (ChessGame.succs GT) (zobrist_hash GT) sim (depth_of dd) (s_board st) ->
  history_fresh_below GT (s_history st) (depth_of dd) (s_board st) ->
  root_empty GT (s_board st) = false -> full (s_board st) + N.of_nat (depth_of dd) < 16777216 ->
  Forall (fun it => exists d : nat, (S d <= depth_of dd)%nat /\ exact_rec GT (static_sat GT) (s_board st) d it)
         (fst (go_full GT orc g st)) /\
  (ChessGame.succs GT (s_board st) <> [] ->
   exists it rest, fst (go_full GT orc g st) = it :: rest /\
                   exact_rec GT (static_sat GT) (s_board st) (pred (depth_of dd)) it).
Proof. exact go_depth_closed_chessB. Qed.
Print Assumptions C08_go_depth_closed_below.

(* the last `info` of the go and the bestmove: the exact value nm D root and a move attaining it *)
Theorem C08_reported_score_exact_below : forall orc : oracle, quiet orc ->
  forall sim : nat -> board -> board -> Prop,
  (forall (r' r : nat) (x y : board), sim r' x y -> (r <= r')%nat ->
     nm board (ChessGame.succs GT) (ChessGame.noisy_succs GT) (ChessGame.noisy_any GT) (static_sat GT) (ChessGame.terminal GT)
        ChessGame.qmeasure r x =
     nm board (ChessGame.succs GT) (ChessGame.noisy_succs GT) (ChessGame.noisy_any GT) (static_sat GT) (ChessGame.terminal GT)
        ChessGame.qmeasure r y) ->
  (forall (r r' : nat) (x y : board), (r <= r')%nat -> sim r' x y -> sim r x y) ->
  forall (g : go_params) (st : sstate) (dd : N), g_depth g = Some dd -> plain_go g ->
  goodC (depth_of dd + 130)%nat (s_board st) ->
  ply_unique board (ChessGame.succs GT) (zobrist_hash GT) sim (depth_of dd) (s_board st) ->
  history_fresh_below GT (s_history st) (depth_of dd) (s_board st) ->
  full (s_board st) + N.of_nat (depth_of dd) < 16777216 ->
  ChessGame.succs GT (s_board st) <> [] ->
  exists infos i ponder m q,
    go_msgs GT orc g st = infos ++ [OInfo i; OBestmove (Some (uci_of_move m)) ponder] /\
    forallb is_info infos = true /\
    i_depth i = Some (N.of_nat (depth_of dd)) /\
    i_score i = Some (score_from_value GT
                        (nm board (ChessGame.succs GT) (ChessGame.noisy_succs GT) (ChessGame.noisy_any GT) (static_sat GT) (ChessGame.terminal GT)
        ChessGame.qmeasure (depth_of dd) (s_board st)) (s_board st)) /\
    (exists pv, i_pv i = Some (uci_of_move m :: pv) /\ ponder = nth_error pv 0) /\
    make (s_board st) m = Some q /\ In q (ChessGame.succs GT (s_board st)) /\
    (- nm board (ChessGame.succs GT) (ChessGame.noisy_succs GT) (ChessGame.noisy_any GT) (static_sat GT) (ChessGame.terminal GT)
        ChessGame.qmeasure (pred (depth_of dd)) q)%Z =
    nm board (ChessGame.succs GT) (ChessGame.noisy_succs GT) (ChessGame.noisy_any GT) (static_sat GT) (ChessGame.terminal GT)
        ChessGame.qmeasure (depth_of dd) (s_board st).
Proof. exact reported_score_exact_chessB. Qed.
Print Assumptions C08_reported_score_exact_below.

(* ---- depth 1: no premise on keys ---- *)
Theorem C08_depth1_closed_below : forall orc : oracle, quiet orc ->
  forall (g : go_params) (st : sstate), g_depth g = Some 1 -> plain_go g ->
  goodC 131 (s_board st) -> history_fresh_below GT (s_history st) 1 (s_board st) ->
  full (s_board st) + 1 < 16777216 -> root_empty GT (s_board st) = false ->
  Forall (exact_rec GT (static_sat GT) (s_board st) 0) (fst (go_full GT orc g st)) /\
  (ChessGame.succs GT (s_board st) <> [] ->
   exists it, fst (go_full GT orc g st) = [it] /\ exact_rec GT (static_sat GT) (s_board st) 0 it).
Proof. exact depth1_closed_chessB. Qed.
Print Assumptions C08_depth1_closed_below.

Theorem C08_depth1_reported_below : forall orc : oracle, quiet orc ->
  forall (g : go_params) (st : sstate), g_depth g = Some 1 -> plain_go g ->
  goodC 131 (s_board st) -> history_fresh_below GT (s_history st) 1 (s_board st) ->
  full (s_board st) + 1 < 16777216 -> ChessGame.succs GT (s_board st) <> [] ->
  exists infos i ponder m q,
    go_msgs GT orc g st = infos ++ [OInfo i; OBestmove (Some (uci_of_move m)) ponder] /\
    forallb is_info infos = true /\
    i_depth i = Some 1 /\
    i_score i = Some (score_from_value GT
                        (nm board (ChessGame.succs GT) (ChessGame.noisy_succs GT) (ChessGame.noisy_any GT) (static_sat GT) (ChessGame.terminal GT)
        ChessGame.qmeasure 1%nat (s_board st)) (s_board st)) /\
    (exists pv, i_pv i = Some (uci_of_move m :: pv) /\ ponder = nth_error pv 0) /\
    make (s_board st) m = Some q /\ In q (ChessGame.succs GT (s_board st)) /\
    (- nm board (ChessGame.succs GT) (ChessGame.noisy_succs GT) (ChessGame.noisy_any GT) (static_sat GT) (ChessGame.terminal GT)
        ChessGame.qmeasure 0%nat q)%Z =
    nm board (ChessGame.succs GT) (ChessGame.noisy_succs GT) (ChessGame.noisy_any GT) (static_sat GT) (ChessGame.terminal GT)
        ChessGame.qmeasure 1%nat (s_board st).
Proof. exact depth1_reported_chessB. Qed.
Print Assumptions C08_depth1_reported_below.

(* ================================================================== *)
(* 3. sessions                                                         *)

(* `position fen X` (no moves) on an engine in ANY state: the new history is 0 everywhere except the root's key at the
   root's clock -- no entry of an earlier game or search survives, below or above *)
Theorem C08_position_installs_new_history : forall (T : Tables.t) (f : fen) (st0 : sstate),
  let st := set_position_from T f [] st0 in
  s_board st = board_of_fen f /\
  forall x, hget (s_history st) x = if x =? ply_clock_w (board_of_fen f) then zobrist_hash T (board_of_fen f) else 0.
Proof. exact position_history_fresh_start. Qed.
Print Assumptions C08_position_installs_new_history.

Theorem C08_history_fresh_below_position_fen : forall (T : Tables.t) (D : nat) (f : fen) (st0 : sstate),
  let root := board_of_fen f in
  let st := set_position_from T f [] st0 in
  (forall (i : nat) (y : board), (1 <= i <= D)%nat -> at_ply board (ChessGame.succs T) root i y -> zobrist_hash T y <> 0) ->
  s_board st = root /\ history_fresh_below T (s_history st) D (s_board st).
Proof. exact fresh_below_position_fen. Qed.
Print Assumptions C08_history_fresh_below_position_fen.

(* a whole go, EVERY oracle and EVERY parameter set, D = any bound on the number of iterations it runs: an entry of the
   history is unchanged or its index is the u16 ply clock of one of the plies 0..D below the root *)
Theorem C08_go_history_writes : forall (T : Tables.t) (good : nat -> board -> Prop) (Q : nat), C03_family T good Q ->
  forall (orc : oracle) (g : go_params) (st : sstate) (D : nat),
  (length (fst (go_full T orc g st)) <= D)%nat -> good (D + S Q)%nat (s_board st) ->
  RepetitionProofs.clock_ok (s_board st) ->
  forall x, hget (s_history (go T orc g st)) x = hget (s_history st) x \/
            exists j : nat, (j <= D)%nat /\ x = (RepetitionProofs.ply_count (s_board st) + N.of_nat j) mod 65536.
Proof. exact go_history_writes. Qed.
Print Assumptions C08_go_history_writes.

Theorem C08_go_history_below : forall (T : Tables.t) (good : nat -> board -> Prop) (Q : nat), C03_family T good Q ->
  forall (orc : oracle) (g : go_params) (st : sstate) (D : nat),
  (length (fst (go_full T orc g st)) <= D)%nat -> good (D + S Q)%nat (s_board st) ->
  RepetitionProofs.clock_ok (s_board st) -> ply_clock_w (s_board st) + N.of_nat D < 65536 ->
  forall x, x < ply_clock_w (s_board st) -> hget (s_history (go T orc g st)) x = hget (s_history st) x.
Proof. exact go_history_below. Qed.
Print Assumptions C08_go_history_below.

(* [searches_ok T good Q root cmds st]: a session of searches of one position -- no `position` command; every go (any
   oracle) ends within D iterations for a D with a good root and no u16 wrap; other commands unrestricted *)
Theorem C08_searches_ok_nil : forall (T : Tables.t) (good : nat -> board -> Prop) (Q : nat) (root : board) (st : sstate),
  searches_ok T good Q root [] st <-> True.
Proof. exact searches_ok_nil. Qed.
Print Assumptions C08_searches_ok_nil.

Theorem C08_searches_ok_cons : forall (T : Tables.t) (good : nat -> board -> Prop) (Q : nat) (root : board) (c : cmd)
    (r : list cmd) (st : sstate),
  searches_ok T good Q root (c :: r) st <->
  (match c with
   | CPosition _ _ => False
   | CGo g o => exists D : nat, (length (fst (go_full T o g st)) <= D)%nat /\ good (D + S Q)%nat root /\
                                ply_clock_w root + N.of_nat D < 65536
   | _ => True
   end) /\ searches_ok T good Q root r (run_command T st c).
Proof. exact searches_ok_cons. Qed.
Print Assumptions C08_searches_ok_cons.

(* a depth-limited go satisfies the clause in every state, whatever its oracle *)
Theorem C08_depth_go_ok : forall (T : Tables.t) (good : nat -> board -> Prop) (Q : nat), C03_family T good Q ->
  forall (o : oracle) (g : go_params) (st : sstate) (dd : N) (root : board),
  g_depth g = Some dd -> good (depth_of dd + S Q)%nat root ->
  ply_clock_w root + N.of_nat (depth_of dd) < 65536 ->
  exists D : nat, (length (fst (go_full T o g st)) <= D)%nat /\ good (D + S Q)%nat root /\
                  ply_clock_w root + N.of_nat D < 65536.
Proof. exact depth_go_ok. Qed.
Print Assumptions C08_depth_go_ok.

Theorem C08_searches_keep_fresh_below : forall (T : Tables.t) (good : nat -> board -> Prop) (Q : nat), C03_family T good Q ->
  forall root : board, RepetitionProofs.clock_ok root ->
  forall (cmds : list cmd) (st : sstate) (D : nat), s_board st = root -> searches_ok T good Q root cmds st ->
  history_fresh_below T (s_history st) D root ->
  s_board (run_commands T cmds st) = root /\ history_fresh_below T (s_history (run_commands T cmds st)) D root.
Proof. exact searches_keep_fresh_below. Qed.
Print Assumptions C08_searches_keep_fresh_below.

Theorem C08_fresh_below_after_position_and_searches : forall (T : Tables.t) (good : nat -> board -> Prop) (Q : nat), C03_family T good Q ->
  forall (D : nat) (f : fen) (st0 : sstate) (cmds : list cmd),
  let root := board_of_fen f in
  let st := run_commands T cmds (set_position_from T f [] st0) in
  RepetitionProofs.clock_ok root ->
  searches_ok T good Q root cmds (set_position_from T f [] st0) ->
  (forall (i : nat) (y : board), (1 <= i <= D)%nat -> at_ply board (ChessGame.succs T) root i y -> zobrist_hash T y <> 0) ->
  s_board st = root /\ history_fresh_below T (s_history st) D (s_board st).
Proof. exact fresh_below_after_position_and_searches. Qed.
Print Assumptions C08_fresh_below_after_position_and_searches.

(* C08 as stated: on an engine with ANY past (st0), `position fen X`, then any searches of X, then `go depth dd` *)
Theorem C08_reported_score_after_position_and_searches : forall orc : oracle, quiet orc ->
  forall sim : nat -> board -> board -> Prop,
  (forall (r' r : nat) (x y : board), sim r' x y -> (r <= r')%nat ->
     nm board (ChessGame.succs GT) (ChessGame.noisy_succs GT) (ChessGame.noisy_any GT) (static_sat GT) (ChessGame.terminal GT)
        ChessGame.qmeasure r x =
     nm board (ChessGame.succs GT) (ChessGame.noisy_succs GT) (ChessGame.noisy_any GT) (static_sat GT) (ChessGame.terminal GT)
        ChessGame.qmeasure r y) ->
  (forall (r r' : nat) (x y : board), (r <= r')%nat -> sim r' x y -> sim r x y) ->
  forall (g : go_params) (f : fen) (st0 : sstate) (cmds : list cmd) (dd : N), g_depth g = Some dd -> plain_go g ->
  let root := board_of_fen f in
  let st := run_commands GT cmds (set_position_from GT f [] st0) in
  goodC (depth_of dd + 130)%nat root ->
  ply_unique board (ChessGame.succs GT) (zobrist_hash GT) sim (depth_of dd) root ->
  searches_ok GT goodC 129 root cmds (set_position_from GT f [] st0) ->
  (forall (i : nat) (y : board), (1 <= i <= depth_of dd)%nat -> at_ply board (ChessGame.succs GT) root i y ->
     zobrist_hash GT y <> 0) ->
  full root + N.of_nat (depth_of dd) < 16777216 ->
  ChessGame.succs GT root <> [] ->
  exists infos i ponder m q,
    go_msgs GT orc g st = infos ++ [OInfo i; OBestmove (Some (uci_of_move m)) ponder] /\
    forallb is_info infos = true /\
    i_depth i = Some (N.of_nat (depth_of dd)) /\
    i_score i = Some (score_from_value GT
                        (nm board (ChessGame.succs GT) (ChessGame.noisy_succs GT) (ChessGame.noisy_any GT) (static_sat GT) (ChessGame.terminal GT)
        ChessGame.qmeasure (depth_of dd) root) root) /\
    (exists pv, i_pv i = Some (uci_of_move m :: pv) /\ ponder = nth_error pv 0) /\
    make root m = Some q /\ In q (ChessGame.succs GT root) /\
    (- nm board (ChessGame.succs GT) (ChessGame.noisy_succs GT) (ChessGame.noisy_any GT) (static_sat GT) (ChessGame.terminal GT)
        ChessGame.qmeasure (pred (depth_of dd)) q)%Z =
    nm board (ChessGame.succs GT) (ChessGame.noisy_succs GT) (ChessGame.noisy_any GT) (static_sat GT) (ChessGame.terminal GT)
        ChessGame.qmeasure (depth_of dd) root.
Proof. exact reported_score_after_position_and_searches. Qed.
Print Assumptions C08_reported_score_after_position_and_searches.

(* ================================================================== *)
(* 4. C09: "a following go without a new position command ...: its depth-1 score equals that of a fresh engine given
      that position"                                                   *)

(* two engine states with the same board (C09_go_board: a search gives the board back): `go depth 1` reports the same score,
   score_from_value (nm 1 root).  Premises: goodC, a quiet oracle for each depth-1 go itself, plain go, history premise. *)
Theorem C09_depth1_score_state_independent : forall orc1 orc2 : oracle, quiet orc1 -> quiet orc2 ->
  forall (g1 g2 : go_params) (st1 st2 : sstate),
  g_depth g1 = Some 1 -> plain_go g1 -> g_depth g2 = Some 1 -> plain_go g2 ->
  s_board st2 = s_board st1 ->
  goodC 131 (s_board st1) -> full (s_board st1) + 1 < 16777216 -> ChessGame.succs GT (s_board st1) <> [] ->
  history_fresh_below GT (s_history st1) 1 (s_board st1) ->
  history_fresh_below GT (s_history st2) 1 (s_board st1) ->
  exists infos1 i1 m1 p1 infos2 i2 m2 p2,
    go_msgs GT orc1 g1 st1 = infos1 ++ [OInfo i1; OBestmove (Some m1) p1] /\
    go_msgs GT orc2 g2 st2 = infos2 ++ [OInfo i2; OBestmove (Some m2) p2] /\
    forallb is_info infos1 = true /\ forallb is_info infos2 = true /\
    i_depth i1 = Some 1 /\ i_depth i2 = Some 1 /\
    i_score i1 = Some (score_from_value GT
                         (nm board (ChessGame.succs GT) (ChessGame.noisy_succs GT) (ChessGame.noisy_any GT) (static_sat GT) (ChessGame.terminal GT)
        ChessGame.qmeasure 1%nat (s_board st1)) (s_board st1)) /\
    i_score i2 = i_score i1.
Proof. exact depth1_score_state_independent. Qed.
Print Assumptions C09_depth1_score_state_independent.

(* the history premise discharged: engine 1 right after `position fen X`, engine 2 after `position fen X` and ANY searches
   of X (every oracle: stopped, aborted, finished), both with an arbitrary past before the position command *)
Theorem C09_depth1_after_searches : forall orc1 orc2 : oracle, quiet orc1 -> quiet orc2 ->
  forall g1 g2 : go_params, g_depth g1 = Some 1 -> plain_go g1 -> g_depth g2 = Some 1 -> plain_go g2 ->
  forall (f : fen) (stA stB : sstate) (cmds : list cmd),
  let root := board_of_fen f in
  let st1 := set_position_from GT f [] stA in
  let st2 := run_commands GT cmds (set_position_from GT f [] stB) in
  goodC 131 root -> full root + 1 < 16777216 -> ChessGame.succs GT root <> [] ->
  searches_ok GT goodC 129 root cmds (set_position_from GT f [] stB) ->
  (forall (i : nat) (y : board), (1 <= i <= 1)%nat -> at_ply board (ChessGame.succs GT) root i y -> zobrist_hash GT y <> 0) ->
  exists infos1 i1 m1 p1 infos2 i2 m2 p2,
    go_msgs GT orc1 g1 st1 = infos1 ++ [OInfo i1; OBestmove (Some m1) p1] /\
    go_msgs GT orc2 g2 st2 = infos2 ++ [OInfo i2; OBestmove (Some m2) p2] /\
    forallb is_info infos1 = true /\ forallb is_info infos2 = true /\
    i_depth i1 = Some 1 /\ i_depth i2 = Some 1 /\
    i_score i1 = Some (score_from_value GT
                         (nm board (ChessGame.succs GT) (ChessGame.noisy_succs GT) (ChessGame.noisy_any GT) (static_sat GT) (ChessGame.terminal GT)
        ChessGame.qmeasure 1%nat root) root) /\
    i_score i2 = i_score i1.
Proof. exact depth1_after_searches. Qed.
Print Assumptions C09_depth1_after_searches.

(* ================================================================== *)
(* 5. the premise is decidable on a concrete tree; the example         *)

Theorem C08_fresh_below_check_sound : forall (T : Tables.t) (h : hist) (D : nat) (root : board),
  fresh_below_check T h D root = true -> history_fresh_below T h D root.
Proof. exact fresh_below_check_sound. Qed.
Print Assumptions C08_fresh_below_check_sound.

(* K+R+P against K+P, "8/5p2/8/4k3/8/3R4/4P3/4K3 w - - 40 60", ONE engine: position fen ..; go depth 2; go depth 2.
   ex40_st1 = the state after `position`, ex40_st2 = the state after the first go (oracle: no stop, period 100000).
   The second go starts with the first one's entries still at the indices 119, 120 above the root's clock 118, and its
   premises hold, all by computation *)
Example C08_second_go_premises :
  s_board ex40_st2 = ex40_root /\ ply_clock_w ex40_root = 118 /\
  hget (s_history ex40_st2) 119 <> 0 /\ hget (s_history ex40_st2) 120 <> 0 /\
  RepetitionInstance.good_c10b GT 132 (s_board ex40_st2) = true /\
  ply_unique_check GT 2 (s_board ex40_st2) = true /\
  fresh_below_check GT (s_history ex40_st2) 2 (s_board ex40_st2) = true.
Proof. repeat split; vm_compute; try reflexivity; discriminate. Qed.

(* both searches end with `info depth 2 .. score cp 430` (the second one for EVERY quiet oracle) *)
Theorem C08_two_consecutive_go : forall orc2 : oracle, quiet orc2 ->
  exists infos1 i1 p1 m1 infos2 i2 p2 m2,
    go_msgs GT RepetitionProofs.ex_orc ex40_go ex40_st1 = infos1 ++ [OInfo i1; OBestmove (Some (uci_of_move m1)) p1] /\
    go_msgs GT orc2 ex40_go ex40_st2 = infos2 ++ [OInfo i2; OBestmove (Some (uci_of_move m2)) p2] /\
    i_depth i1 = Some 2 /\ i_depth i2 = Some 2 /\ i_score i1 = Some (Cp 430) /\ i_score i2 = Some (Cp 430).
Proof. exact ex40_both_report. Qed.
Print Assumptions C08_two_consecutive_go.

(* after `go depth 2 searchmoves d3d4` (state ex40_st3) the key of the position after Rd4 stays at index 119; the position
   five plies below the root reached by Rd4 and four reversible plies (ex40_y5) has that key and inspects 119 = 123 - 4:
   [history_fresh] at depth 5 is FALSE of that state, while every entry below the root's clock is still 0 *)
Theorem C08_stale_entries_break_history_fresh : s_board ex40_st3 = ex40_root /\
  ~ history_fresh GT (s_history ex40_st3) 5 ex40_root /\
  (forall x, x < ply_clock_w ex40_root -> hget (s_history ex40_st3) x = 0).
Proof. exact ex40_stale_breaks_history_fresh. Qed.
Print Assumptions C08_stale_entries_break_history_fresh.

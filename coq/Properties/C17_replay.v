(* Property C17, last sentence: "Replaying the yielded SAN moves on a board reproduces the game."
   Model: Model/PgnReader.v (run_concrete), Model/Notation.v (pgn_to_bb = SAN reader, uci_to_pgn = SAN writer, make_uci),
          Model/Board.v (make).  The replay loop is pgn_test/src/main.rs `calc`:
              let mut board = Bitboard::default();  for x in &pgn.moves { board.make(board.pgn_to_bb(&x.mv) or panic) }
          = Proofs/PgnReplay.v `replay_moves` / `replay` (None = the panic arm).
   Spec:  Spec/Rules.v (legal_moves, apply), Spec/SanSpec.v (san), Spec/PgnSpec.v (render, raw_of, layout_ok).
   Proofs: Proofs/PgnReplay.v on top of C17 (PgnProofs.reader_complete), C14 (SanClosed.reader_roundtrip/reader_sound),
           C02 (legal_successor), C03 (C03_unmake_make), C13 (make_uci_accept).  Only pinned statements here.

   Side conditions
     tables_attacks_ok T, tables_movegen_ok T   Gen tables: SweepAll.tables_ok, MoveGenProofs.gen_tables_movegen_ok (`_gen`/`_startpos` below)
     wf b, legal_pos (abs b) = true             the board replay starts from; STARTPOS: PgnReplay.start_wf / start_legal
     legal_line_of p us                         each move of us is a legal move of the rules in the position where it is played
     half b + (number of moves) <= 4096         ONLY where the board left behind by a `&mut self` conversion is used:
                                                C17_replay_fx_eq / C17_replay_game_fx (Rust pgn_to_bb runs make/unmake pairs)
                                                and C17_writer_line (uci_to_pgn, make_uci).  The pure model `replay` needs no bound.
   Start position: the general statements take ANY well-formed legal board b0 (e.g. board_of_text of a FEN tag value);
   the Rust loop always starts from Bitboard::default() = board_of_text STARTPOS (`_startpos` instances); it ignores a FEN tag. *)
Require Import Ink.Lib.Str.
Require Import NArith ZArith List Bool.
Import ListNotations.
Require Import Ink.Lib.Bits Ink.Model.Tables Ink.Model.Board Ink.Model.Fen Ink.Model.Notation Ink.Model.PgnReader.
Require Import Ink.Spec.Rules Ink.Spec.SanSpec Ink.Spec.PgnSpec.
Require Import Ink.Proofs.Abs Ink.Proofs.AttackProofs Ink.Proofs.MoveGenProofs Ink.Proofs.PgnReplay.
Require Import Ink.Gen.Tables Ink.Gen.SweepAll.
Open Scope N_scope.

(* ================================================================== *)
(* 1. SAN texts are move tokens of the PGN layout                       *)
(* ================================================================== *)
(* every text SanSpec.san produces (any position, any move) is not empty, has no space / newline / `.`, does not start
   with `{` or `;` and is not a result token: the condition PgnSpec.layout_ok puts on a move *)
Theorem C17_san_token_ok : forall (p : pos) (m : mv), san_okb (san p m) = true.
Proof. exact san_token_ok. Qed.
Print Assumptions C17_san_token_ok.

(* ================================================================== *)
(* 2. a line                                                            *)
(* ================================================================== *)
(* legal_line_of p (u :: r) := In u (legal_moves p) /\ legal_line_of (Rules.apply p u) r
   san_line p (u :: r)      := san p u :: san_line (Rules.apply p u) r
   The standard SAN texts of a legal line replay completely; the moves found are the moves of the line; the final board
   is the rules' position after the line (whole record: cells, side, rights, e.p. target, both clocks). *)
Theorem C17_replay_line : forall T, tables_attacks_ok T = true -> tables_movegen_ok T = true ->
  forall (us : list mv) (b : board), wf b = true -> legal_pos (abs b) = true -> legal_line_of (abs b) us ->
  exists ms b', replay_moves T b (san_line (abs b) us) = Some (ms, b') /\
                map uci_of ms = us /\
                abs b' = fold_left Rules.apply us (abs b) /\
                wf b' = true /\ legal_pos (abs b') = true /\
                half b' <= half b + N.of_nat (length us).
Proof. exact replay_line. Qed.
Print Assumptions C17_replay_line.

(* the final board alone *)
Theorem C17_replay_line_board : forall T, tables_attacks_ok T = true -> tables_movegen_ok T = true ->
  forall (us : list mv) (b : board), wf b = true -> legal_pos (abs b) = true -> legal_line_of (abs b) us ->
  exists b', replay T b (san_line (abs b) us) = Some b' /\ abs b' = fold_left Rules.apply us (abs b) /\
             wf b' = true /\ legal_pos (abs b') = true.
Proof. exact replay_line_board. Qed.
Print Assumptions C17_replay_line_board.

(* converse, EVERY list of texts: whatever the loop accepts is a legal line of the rules and the final board is the
   rules' position after it *)
Theorem C17_replay_sound : forall T, tables_attacks_ok T = true -> tables_movegen_ok T = true ->
  forall (sans : list str) (b : board) (ms : list move) (b' : board), wf b = true -> legal_pos (abs b) = true ->
  replay_moves T b sans = Some (ms, b') ->
  legal_line_of (abs b) (map uci_of ms) /\ length ms = length sans /\
  abs b' = fold_left Rules.apply (map uci_of ms) (abs b) /\ wf b' = true /\ legal_pos (abs b') = true.
Proof. exact replay_sound. Qed.
Print Assumptions C17_replay_sound.

(* EVERY list of texts: threading the board Bitboard::pgn_to_bb(&mut self) leaves behind (one make/unmake pair per
   pseudo-legal move, Driver/RunBoard.v api `san`) through the loop changes nothing below the 12-bit clock bound *)
Theorem C17_replay_fx_eq : forall T, tables_attacks_ok T = true -> tables_movegen_ok T = true ->
  forall (sans : list str) (b : board), wf b = true -> legal_pos (abs b) = true ->
  half b + N.of_nat (length sans) <= 4096 -> replay_fx T b sans = replay T b sans.
Proof. exact replay_fx_eq. Qed.
Print Assumptions C17_replay_fx_eq.

(* the budget is needed: from a board with half-move clock 4096 the two loops differ after one move (12-bit
   previous-half-move field of the move record; known finding of C03, as C14_output_converse_needs_half) *)
Theorem C17_replay_fx_refuted_at_clock_4096 :
  exists b sans, wf b = true /\ legal_pos (abs b) = true /\ half b + N.of_nat (length sans) = 4097 /\
    option_map half (replay tables b sans) = Some 4097 /\
    option_map half (replay_fx tables b sans) = Some 1.
Proof. exact replay_fx_needs_budget. Qed.
Print Assumptions C17_replay_fx_refuted_at_clock_4096.

(* the texts the MODEL WRITER produces along the line (uci_to_pgn for the text, make_uci to go on) are san_line *)
Theorem C17_writer_line : forall T, tables_attacks_ok T = true -> tables_movegen_ok T = true ->
  forall (us : list mv) (b : board), wf b = true -> legal_pos (abs b) = true ->
  half b + N.of_nat (length us) <= 4096 -> legal_line_of (abs b) us ->
  write_line T b (map uci us) = Some (san_line (abs b) us).
Proof. exact write_line_spec. Qed.
Print Assumptions C17_writer_line.

(* ================================================================== *)
(* 3. games in a file: render -> chunked reader -> replay               *)
(* ================================================================== *)
(* played: tags, (move of the rules, comment) list, `N...` flag, result.   game_of p0 pl: the PGN game record whose SAN
   texts are san_line p0 (pl_moves pl).   played_okb p0 pl: at least one tag, no space in a tag name, no double quote in a tag
   value, no `}` in a comment (the layout_ok conditions that are not about SAN) and legal_lineb p0 (pl_moves pl).
   replay_item T b0 (Ok g) = the moves found (as moves of the rules) and abs of the final board; None if the loop stops.
   For every chunk size and fragmentation: the reader yields every game (tags as a map, SAN texts with comments), and
   replaying the SAN texts of each game from b0 finds exactly the played moves and ends in the rules' final position. *)
Theorem C17_replay_game : forall T, tables_attacks_ok T = true -> tables_movegen_ok T = true ->
  forall (b0 : board), wf b0 = true -> legal_pos (abs b0) = true ->
  forall (pls : list played) (nl : bool) (chunk : nat) (frag : list nat),
  forallb (played_okb (abs b0)) pls = true -> (1 <= chunk)%nat ->
  let file := render (map (game_of (abs b0)) pls) nl in
  run_concrete chunk frag file = map Ok (map raw_of (map (game_of (abs b0)) pls)) /\
  map (replay_item T b0) (run_concrete chunk frag file)
  = map (fun pl => Some (pl_moves pl, fold_left Rules.apply (pl_moves pl) (abs b0))) pls.
Proof. exact replay_games. Qed.
Print Assumptions C17_replay_game.

(* what the record handed to the reader's client contains *)
Theorem C17_game_of_sans : forall p0 pl, map fst (g_moves (game_of p0 pl)) = san_line p0 (pl_moves pl).
Proof. exact game_of_sans. Qed.
Print Assumptions C17_game_of_sans.
Theorem C17_game_of_comments : forall p0 pl, map snd (g_moves (game_of p0 pl)) = pl_comments pl.
Proof. exact game_of_comments. Qed.
Print Assumptions C17_game_of_comments.
Theorem C17_games_layout_ok : forall p0 pls, forallb (played_okb p0) pls = true -> layout_ok (map (game_of p0) pls).
Proof. exact games_layout_ok. Qed.
Print Assumptions C17_games_layout_ok.

(* the same through the loop with the side effect of the Rust pgn_to_bb (clock budget per game) *)
Theorem C17_replay_game_fx : forall T, tables_attacks_ok T = true -> tables_movegen_ok T = true ->
  forall (b0 : board), wf b0 = true -> legal_pos (abs b0) = true ->
  forall (pls : list played) (nl : bool) (chunk : nat) (frag : list nat),
  forallb (played_okb (abs b0)) pls = true -> (1 <= chunk)%nat ->
  Forall (fun pl => half b0 + N.of_nat (length (pl_line pl)) <= 4096) pls ->
  map (fun r => match r with Ok g => option_map abs (replay_fx T b0 (map fst (snd g))) | Err _ => None end)
      (run_concrete chunk frag (render (map (game_of (abs b0)) pls) nl))
  = map (fun pl => Some (fold_left Rules.apply (pl_moves pl) (abs b0))) pls.
Proof. exact replay_games_fx. Qed.
Print Assumptions C17_replay_game_fx.

(* ================================================================== *)
(* 4. the tables of the current tree, the start position                *)
(* ================================================================== *)
Theorem C17_replay_line_gen :
  forall (us : list mv) (b : board), wf b = true -> legal_pos (abs b) = true -> legal_line_of (abs b) us ->
  exists ms b', replay_moves tables b (san_line (abs b) us) = Some (ms, b') /\
                map uci_of ms = us /\
                abs b' = fold_left Rules.apply us (abs b) /\
                wf b' = true /\ legal_pos (abs b') = true /\
                half b' <= half b + N.of_nat (length us).
Proof. exact (replay_line tables tables_ok gen_tables_movegen_ok). Qed.
Print Assumptions C17_replay_line_gen.

(* start_board := board_of_text STARTPOS *)
Theorem C17_replay_game_startpos :
  forall (pls : list played) (nl : bool) (chunk : nat) (frag : list nat),
  forallb (played_okb (abs start_board)) pls = true -> (1 <= chunk)%nat ->
  let file := render (map (game_of (abs start_board)) pls) nl in
  run_concrete chunk frag file = map Ok (map raw_of (map (game_of (abs start_board)) pls)) /\
  map (replay_item tables start_board) (run_concrete chunk frag file)
  = map (fun pl => Some (pl_moves pl, fold_left Rules.apply (pl_moves pl) (abs start_board))) pls.
Proof. exact (replay_games tables tables_ok gen_tables_movegen_ok start_board start_wf start_legal). Qed.
Print Assumptions C17_replay_game_startpos.

(* half start_board = 0: games of up to 4096 plies *)
Theorem C17_replay_game_fx_startpos :
  forall (pls : list played) (nl : bool) (chunk : nat) (frag : list nat),
  forallb (played_okb (abs start_board)) pls = true -> (1 <= chunk)%nat ->
  Forall (fun pl => half start_board + N.of_nat (length (pl_line pl)) <= 4096) pls ->
  map (fun r => match r with Ok g => option_map abs (replay_fx tables start_board (map fst (snd g))) | Err _ => None end)
      (run_concrete chunk frag (render (map (game_of (abs start_board)) pls) nl))
  = map (fun pl => Some (fold_left Rules.apply (pl_moves pl) (abs start_board))) pls.
Proof. exact (replay_games_fx tables tables_ok gen_tables_movegen_ok start_board start_wf start_legal). Qed.
Print Assumptions C17_replay_game_fx_startpos.

(* ================================================================== *)
(* 5. examples (vm_compute): two games in one file                      *)
(* ================================================================== *)
(* game 1: White castles short, Black long, captures, a check.  game 2: capturing promotion, both castle long, check. *)
Definition p_start : pos := abs start_board.
Definition ex_line1 : list mv := line_of_texts p_start (map lit
  ["e2e4"; "e7e5"; "g1f3"; "b8c6"; "f1c4"; "f8c5"; "e1g1"; "d7d6"; "d2d3"; "c8g4"; "b1c3"; "d8e7"; "c1e3"; "e8c8";
   "h2h3"; "g4f3"; "d1f3"; "g8f6"; "f3f5"; "c8b8"]%string).
Definition ex_line2 : list mv := line_of_texts p_start (map lit
  ["h2h4"; "g7g5"; "h4g5"; "h7h6"; "g5h6"; "g8f6"; "h6h7"; "h8g8"; "h7g8q"; "f6g8"; "d2d4"; "d7d5"; "b1c3"; "b8c6";
   "c1f4"; "c8f5"; "d1d2"; "d8d7"; "e1c1"; "e8c8"; "c3b5"; "e7e6"; "b5a7"; "c6a7"]%string).
Definition ex_clk (n : nat) : option str := Some (lit " [%clk 0:03:" ++ show_N (N.of_nat (59 - n)) ++ lit "] ").
Definition ex_played1 : played :=
  {| pl_tags := [(lit "Event", lit "Rated Blitz game"); (lit "Site", lit "https://lichess.org/abc"); (lit "Result", lit "1-0")];
     pl_line := combine ex_line1 (map ex_clk (seq 0 20));
     pl_black_numbers := true; pl_result := WhiteWins |}.
Definition ex_played2 : played :=
  {| pl_tags := [(lit "Event", lit "Rated Bullet game"); (lit "Site", lit "https://lichess.org/def"); (lit "Result", lit "*")];
     pl_line := map (fun u => (u, None)) ex_line2;
     pl_black_numbers := false; pl_result := Unfinished |}.
Definition ex_file : list N := render (map (game_of p_start) [ex_played1; ex_played2]) true.

(* the hypotheses of C17_replay_game_startpos hold *)
Example ex_played_ok : forallb (played_okb (abs start_board)) [ex_played1; ex_played2] = true.
Proof. vm_compute. reflexivity. Qed.
Example ex_budget : Forall (fun pl => half start_board + N.of_nat (length (pl_line pl)) <= 4096) [ex_played1; ex_played2].
Proof. repeat constructor; vm_compute; discriminate. Qed.

(* the SAN texts in the file *)
Example ex_sans :
  map (fun g => map fst (g_moves g)) (map (game_of p_start) [ex_played1; ex_played2])
  = [map lit ["e4"; "e5"; "Nf3"; "Nc6"; "Bc4"; "Bc5"; "O-O"; "d6"; "d3"; "Bg4"; "Nc3"; "Qe7"; "Be3"; "O-O-O"; "h3"; "Bxf3";
              "Qxf3"; "Nf6"; "Qf5+"; "Kb8"]%string;
     map lit ["h4"; "g5"; "hxg5"; "h6"; "gxh6"; "Nf6"; "h7"; "Rg8"; "hxg8=Q"; "Nxg8"; "d4"; "d5"; "Nc3"; "Nc6"; "Bf4"; "Bf5";
              "Qd2"; "Qd7"; "O-O-O"; "O-O-O"; "Nb5"; "e6"; "Nxa7+"; "Nxa7"]%string].
Proof. vm_compute. reflexivity. Qed.

(* how the file begins *)
Example ex_file_head :
  firstn 161 ex_file
  = lit "[Event ""Rated Blitz game""]" ++ [10] ++ lit "[Site ""https://lichess.org/abc""]" ++ [10] ++ lit "[Result ""1-0""]"
    ++ [10; 10] ++ lit "1. e4 { [%clk 0:03:59] } 1... e5 { [%clk 0:03:58] } 2. Nf3 { [%clk 0:03:57] } 2... Nc".
Proof. vm_compute. reflexivity. Qed.

(* reading with chunk size 5 and an irregular fragmentation, then replaying each game from the start position:
   the moves played and the rules' final positions *)
Example ex_replay :
  map (replay_item tables start_board) (run_concrete 5 [3; 1; 5; 2; 4; 1; 1]%nat ex_file)
  = [Some (ex_line1, fold_left Rules.apply ex_line1 p_start); Some (ex_line2, fold_left Rules.apply ex_line2 p_start)].
Proof. vm_compute. reflexivity. Qed.

(* the final boards as FEN; the loop with the side effect of pgn_to_bb gives the same *)
Definition ex_final (run : board -> list str -> option board) : list (option (option str)) :=
  map (fun r => match r with Ok g => option_map print_fen (run start_board (map fst (snd g))) | Err _ => None end)
      (run_concrete 64 [] ex_file).
Example ex_final_fen :
  ex_final (replay tables)
  = [Some (Some (lit "1k1r3r/ppp1qppp/2np1n2/2b1pQ2/2B1P3/2NPB2P/PPP2PP1/R4RK1 w - - 3 11"));
     Some (Some (lit "2kr1bn1/nppq1p2/4p3/3p1b2/3P1B2/8/PPPQPPP1/2KR1BNR w - - 0 13"))].
Proof. vm_compute. reflexivity. Qed.
Example ex_final_fen_fx : ex_final (replay_fx tables) = ex_final (replay tables).
Proof. vm_compute. reflexivity. Qed.

(* the model writer produces the same texts *)
Example ex_writer : write_line tables start_board (map uci ex_line2) = Some (san_line p_start ex_line2).
Proof. vm_compute. reflexivity. Qed.

(* a text that is not the SAN of a legal move stops the loop (Rust: panic!) *)
Example ex_replay_stops : replay tables start_board (map lit ["e4"; "e5"; "Ke3"]%string) = None.
Proof. vm_compute. reflexivity. Qed.

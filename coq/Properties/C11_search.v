(* C11 (rules and search level) - the colour flip commutes with the rules of chess, with the model's move generation
   and make, and leaves every fixed-depth search value unchanged from the mover's point of view.
   Spec: Spec/Rules.v, Spec/Minimax.v.  Model: Model/Board.v, Model/Heuristic.v over a table set T; the chess game
   of Proofs/ChessGame.v.  Flips: RulesFlip.flip_pos / flip_umove on the rules, EvalProofs.flip on model boards
   (mirror ranks, swap colours, side to move, castling rights, mirror the e.p. square; both clocks unchanged).
   Only pinned statements here; proofs in Proofs/RulesFlip.v (part A) and Proofs/SearchFlip.v (part B).

   Side conditions, in one place
   part A  length (cells p) = 64 (flip_pos always produces 64 cells: C11_legal_pos_flip_needs_length);
           at most one king of the colour whose check status is asked (in_check uses `find`: the FIRST king;
           C11_in_check_flip_needs_one_king); squares of a move on the board for `apply`.
           Move lists correspond as multisets (Permutation), not as lists (C11_legal_moves_flip_not_list).
           `apply` commutes up to the full-move number, which the rules advance after Black's move only
           (C11_apply_flip, C11_apply_flip_fullc, C11_apply_flip_refuted).
   part B  tables: tables_attacks_ok (C04), tables_movegen_ok (C01), gen_masks_ok (C06), pst_mirror_ok and
           draw_score = 0 (C11), flip_tables_ok (|static| <= ebound <= win/2 < win - MAX_FULL_MOVES, MAX_FULL_MOVES
           <= 2^30); all discharged for the tables of the tree (`_gen`).
           board: wf b, legal_pos (abs b) = true;  full-move number: full b + d < MAX_FULL_MOVES (2^20), so that
           every mate inside the tree is scored in the mate band (D17).
           Result: nm d (flip b) = nm d b  EXCEPT for winning mate scores, which differ by exactly one
           (C11_search_flip; C11_search_flip_refuted_as_equality is the witness); the reported score
           (score_from_value at the respective root: centipawns or mate distance in moves) is equal (C11_reported_flip). *)
Require Import Ink.Lib.Str.
Require Import NArith ZArith List Bool Permutation.
Import ListNotations.
Require Import Ink.Lib.Bits Ink.Model.Tables Ink.Model.Board Ink.Model.Fen Ink.Model.Heuristic.
Require Import Ink.Spec.Rules.
Require Ink.Spec.Minimax.
Require Import Ink.Proofs.Abs Ink.Proofs.AttackProofs Ink.Proofs.MakeUnmake Ink.Proofs.EvalProofs Ink.Proofs.MoveGenProofs Ink.Proofs.ZobristProofs.
Require Import Ink.Proofs.ChessGame Ink.Proofs.RulesFlip Ink.Proofs.SearchFlip.
Require Import Ink.Gen.Tables Ink.Gen.SweepAll.
Open Scope Z_scope.

(* ================================================================== *)
(* Part A: the rules                                                   *)
(* ================================================================== *)

Theorem C11_flip_pos_involutive : forall p, length (cells p) = 64%nat -> flip_pos (flip_pos p) = p.
Proof. exact flip_pos_involutive. Qed.
Print Assumptions C11_flip_pos_involutive.

Theorem C11_fsq_facts : forall s, 0 <= s < 64 ->
  0 <= fsq s < 64 /\ fsq (fsq s) = s /\ fileZ (fsq s) = fileZ s /\ rowZ (fsq s) = 7 - rowZ s.
Proof. exact (fun s H => conj (fsq_range s H) (conj (fsq_invol s) (conj (fileZ_fsq s) (rowZ_fsq s)))). Qed.
Print Assumptions C11_fsq_facts.

Theorem C11_get_flip : forall p s, 0 <= s < 64 -> get (flip_pos p) s = option_map (fun pc => (opp (fst pc), snd pc)) (get p (fsq s)).
Proof. exact get_flip. Qed.
Print Assumptions C11_get_flip.

Theorem C11_legal_pos_flip : forall p, length (cells p) = 64%nat -> legal_pos (flip_pos p) = legal_pos p.
Proof. exact legal_pos_flip. Qed.
Print Assumptions C11_legal_pos_flip.

Theorem C11_legal_pos_flip_needs_length : exists p, legal_pos (flip_pos p) = true /\ legal_pos p = false.
Proof. exact legal_pos_flip_needs_length. Qed.
Print Assumptions C11_legal_pos_flip_needs_length.

Theorem C11_attacked_flip : forall p t c, attacked (flip_pos p) (fsq t) (opp c) = attacked p t c.
Proof. exact attacked_flip. Qed.
Print Assumptions C11_attacked_flip.

Theorem C11_attacked_from_flip : forall p s pc,
  Permutation (attacked_from (flip_pos p) (fsq s) (opp (fst pc), snd pc)) (map fsq (attacked_from p s pc)).
Proof. exact attacked_from_flip. Qed.
Print Assumptions C11_attacked_from_flip.

Theorem C11_count_kind_flip : forall p c k, count_kind (flip_pos p) (opp c) k = count_kind p c k.
Proof. exact count_kind_flip. Qed.
Print Assumptions C11_count_kind_flip.

Theorem C11_in_check_flip : forall p c, (count_kind p c King <= 1)%nat -> in_check (flip_pos p) (opp c) = in_check p c.
Proof. exact in_check_flip. Qed.
Print Assumptions C11_in_check_flip.

Theorem C11_pseudo_moves_flip : forall p, Permutation (pseudo_moves (flip_pos p)) (map flip_umove (pseudo_moves p)).
Proof. exact pseudo_moves_flip. Qed.
Print Assumptions C11_pseudo_moves_flip.

Theorem C11_legal_flip : forall p u, length (cells p) = 64%nat -> (count_kind p (to_move p) King <= 1)%nat ->
  In u (pseudo_moves p) -> legal (flip_pos p) (flip_umove u) = legal p u.
Proof. exact legal_flip. Qed.
Print Assumptions C11_legal_flip.

Theorem C11_legal_moves_flip : forall p, length (cells p) = 64%nat -> (count_kind p (to_move p) King <= 1)%nat ->
  Permutation (legal_moves (flip_pos p)) (map flip_umove (legal_moves p)).
Proof. exact legal_moves_flip. Qed.
Print Assumptions C11_legal_moves_flip.

(* every component but the full-move number *)
Theorem C11_apply_flip : forall p u n, length (cells p) = 64%nat -> 0 <= from u < 64 -> 0 <= to u < 64 ->
  with_full (apply (flip_pos p) (flip_umove u)) n = with_full (flip_pos (apply p u)) n.
Proof. exact apply_flip. Qed.
Print Assumptions C11_apply_flip.

Theorem C11_apply_flip_fullc : forall p u, get p (from u) <> None -> 0 <= from u < 64 ->
  fullc (apply p u) = (match to_move p with Black => fullc p + 1 | White => fullc p end)%N /\
  fullc (apply (flip_pos p) (flip_umove u)) = (match to_move p with White => fullc p + 1 | Black => fullc p end)%N.
Proof. exact apply_flip_fullc. Qed.
Print Assumptions C11_apply_flip_fullc.

Theorem C11_capture_or_promotion_flip : forall p u, 0 <= from u < 64 -> 0 <= to u < 64 ->
  capture_or_promotion (flip_pos p) (flip_umove u) = capture_or_promotion p u.
Proof. exact capture_or_promotion_flip. Qed.
Print Assumptions C11_capture_or_promotion_flip.

Theorem C11_checkmate_flip : forall p, length (cells p) = 64%nat -> (count_kind p (to_move p) King <= 1)%nat ->
  checkmate (flip_pos p) = checkmate p.
Proof. exact checkmate_flip. Qed.
Print Assumptions C11_checkmate_flip.

Theorem C11_stalemate_flip : forall p, length (cells p) = 64%nat -> (count_kind p (to_move p) King <= 1)%nat ->
  stalemate (flip_pos p) = stalemate p.
Proof. exact stalemate_flip. Qed.
Print Assumptions C11_stalemate_flip.

(* the model's flip IS the rules' flip *)
Theorem C11_abs_flip : forall b, wf b = true -> ep b <> 56%N -> abs (flip b) = flip_pos (abs b).
Proof. exact abs_flip. Qed.
Print Assumptions C11_abs_flip.

Theorem C11_abs_flip_legal : forall b, wf b = true -> legal_pos (abs b) = true -> abs (flip b) = flip_pos (abs b).
Proof. exact (fun b Hwf Hl => abs_flip b Hwf (LP_ep b (conj Hwf Hl))). Qed.
Print Assumptions C11_abs_flip_legal.

(* ================================================================== *)
(* Part B: move generation, make and search of the model               *)
(* ================================================================== *)

(* the children of the twin (any full-move number f') are the twins of the children, full-move number f' + (1 - turn b) *)
Theorem C11_succs_twin : forall T, tables_attacks_ok T = true -> tables_movegen_ok T = true ->
  forall b f', wf b = true -> legal_pos (abs b) = true ->
  (forall c, In c (succs T b) -> In (set_full (flip c) (f' + opposite (turn b))) (succs T (set_full (flip b) f'))) /\
  (forall c', In c' (succs T (set_full (flip b) f')) ->
     exists c, In c (succs T b) /\ c' = set_full (flip c) (f' + opposite (turn b))).
Proof. exact (fun T OK MK b f' Hwf Hl => succs_twin T OK MK b f' (conj Hwf Hl)). Qed.
Print Assumptions C11_succs_twin.

Theorem C11_noisy_twin : forall T, tables_attacks_ok T = true -> tables_movegen_ok T = true ->
  forall b f', wf b = true -> legal_pos (abs b) = true ->
  (forall c, In c (noisy_succs T b) -> In (set_full (flip c) (f' + opposite (turn b))) (noisy_succs T (set_full (flip b) f'))) /\
  (forall c', In c' (noisy_succs T (set_full (flip b) f')) ->
     exists c, In c (noisy_succs T b) /\ c' = set_full (flip c) (f' + opposite (turn b))).
Proof. exact (fun T OK MK b f' Hwf Hl => noisy_twin T OK MK b f' (conj Hwf Hl)). Qed.
Print Assumptions C11_noisy_twin.

Theorem C11_noisy_any_flip : forall T, tables_attacks_ok T = true -> tables_movegen_ok T = true ->
  forall b, wf b = true -> legal_pos (abs b) = true -> noisy_any T (flip b) = noisy_any T b.
Proof. exact (fun T OK MK b Hwf Hl => noisy_any_flip T OK MK b (conj Hwf Hl)). Qed.
Print Assumptions C11_noisy_any_flip.

(* the twin of a legal position is a legal position *)
Theorem C11_flip_legal : forall b, wf b = true -> legal_pos (abs b) = true ->
  wf (flip b) = true /\ legal_pos (abs (flip b)) = true /\ flip (flip b) = b.
Proof.
  exact (fun b Hwf Hl => conj (proj1 (LP_flip b (conj Hwf Hl))) (conj (proj2 (LP_flip b (conj Hwf Hl))) (flip_flip_LP b (conj Hwf Hl)))).
Qed.
Print Assumptions C11_flip_legal.

(* static evaluation in the band *)
Theorem C11_static_band : forall T, flip_tables_ok T = true -> draw_score T = 0 -> forall b, wf b = true ->
  - ebound T <= static T b <= ebound T.
Proof. exact (fun T HB HD b Hwf => static_band T HB b HD Hwf). Qed.
Print Assumptions C11_static_band.

(* the exact negamax value of every depth: equal, except that a WINNING mate score differs by one *)
Theorem C11_search_flip : forall T, tables_attacks_ok T = true -> tables_movegen_ok T = true -> gen_masks_ok T = true ->
  pst_mirror_ok T = true -> draw_score T = 0 -> flip_tables_ok T = true ->
  forall b d, wf b = true -> legal_pos (abs b) = true -> Z.of_N (full b) + Z.of_nat d < max_full_moves T ->
  Minimax.nm board (succs T) (noisy_succs T) (noisy_any T) (static T) (terminal T) qmeasure d (flip b) =
  (let v := Minimax.nm board (succs T) (noisy_succs T) (noisy_any T) (static T) (terminal T) qmeasure d b in
   if win_score T - max_full_moves T <? v then v - (if (turn b =? WHITE)%N then 1 else -1) else v).
Proof. exact nm_flip. Qed.
Print Assumptions C11_search_flip.

Theorem C11_search_flip_no_win : forall T, tables_attacks_ok T = true -> tables_movegen_ok T = true -> gen_masks_ok T = true ->
  pst_mirror_ok T = true -> draw_score T = 0 -> flip_tables_ok T = true ->
  forall b d, wf b = true -> legal_pos (abs b) = true -> Z.of_N (full b) + Z.of_nat d < max_full_moves T ->
  Minimax.nm board (succs T) (noisy_succs T) (noisy_any T) (static T) (terminal T) qmeasure d b <= win_score T - max_full_moves T ->
  Minimax.nm board (succs T) (noisy_succs T) (noisy_any T) (static T) (terminal T) qmeasure d (flip b) =
  Minimax.nm board (succs T) (noisy_succs T) (noisy_any T) (static T) (terminal T) qmeasure d b.
Proof. exact nm_flip_no_win. Qed.
Print Assumptions C11_search_flip_no_win.

(* every search value is a centipawn value within the evaluation bound or a mate score *)
Theorem C11_search_value_kind : forall T, tables_attacks_ok T = true -> tables_movegen_ok T = true -> gen_masks_ok T = true ->
  pst_mirror_ok T = true -> draw_score T = 0 -> flip_tables_ok T = true ->
  forall b d, wf b = true -> legal_pos (abs b) = true -> Z.of_N (full b) + Z.of_nat d < max_full_moves T ->
  Z.abs (Minimax.nm board (succs T) (noisy_succs T) (noisy_any T) (static T) (terminal T) qmeasure d b) <= ebound T \/
  win_score T - max_full_moves T < Z.abs (Minimax.nm board (succs T) (noisy_succs T) (noisy_any T) (static T) (terminal T) qmeasure d b).
Proof. exact nm_value_kind. Qed.
Print Assumptions C11_search_value_kind.

(* the reported score - centipawns, or the mate distance in moves - is the same *)
Theorem C11_reported_flip : forall T, tables_attacks_ok T = true -> tables_movegen_ok T = true -> gen_masks_ok T = true ->
  pst_mirror_ok T = true -> draw_score T = 0 -> flip_tables_ok T = true ->
  forall b d, wf b = true -> legal_pos (abs b) = true -> Z.of_N (full b) + Z.of_nat d < max_full_moves T ->
  score_from_value T (Minimax.nm board (succs T) (noisy_succs T) (noisy_any T) (static T) (terminal T) qmeasure d (flip b)) (flip b) =
  score_from_value T (Minimax.nm board (succs T) (noisy_succs T) (noisy_any T) (static T) (terminal T) qmeasure d b) b.
Proof. exact reported_flip. Qed.
Print Assumptions C11_reported_flip.

(* the relational form, for a twin whose full-move number is out of step (any node of the tree):
   rc = side to move at the root, s = "the root's side is to move here" *)
Theorem C11_search_twin : forall T, tables_attacks_ok T = true -> tables_movegen_ok T = true -> gen_masks_ok T = true ->
  pst_mirror_ok T = true -> draw_score T = 0 -> flip_tables_ok T = true ->
  forall rc, (rc < 2)%N -> forall d s b b', Rtw T rc d s b b' ->
  Minimax.nm board (succs T) (noisy_succs T) (noisy_any T) (static T) (terminal T) qmeasure d b' =
  gsh T rc s (Minimax.nm board (succs T) (noisy_succs T) (noisy_any T) (static T) (terminal T) qmeasure d b).
Proof. exact nm_twin. Qed.
Print Assumptions C11_search_twin.

(* ================================================================== *)
(* the tables of the current tree                                      *)
(* ================================================================== *)

Theorem C11_gen_flip_tables_ok : flip_tables_ok tables = true.
Proof. exact gen_flip_tables_ok. Qed.
Print Assumptions C11_gen_flip_tables_ok.

Theorem C11_search_flip_gen : forall b d, wf b = true -> legal_pos (abs b) = true -> Z.of_N (full b) + Z.of_nat d < 1048576 ->
  Minimax.nm board (succs tables) (noisy_succs tables) (noisy_any tables) (static tables) (terminal tables) qmeasure d (flip b) =
  (let v := Minimax.nm board (succs tables) (noisy_succs tables) (noisy_any tables) (static tables) (terminal tables) qmeasure d b in
   if 15728640 <? v then v - (if (turn b =? WHITE)%N then 1 else -1) else v).
Proof. exact nm_flip_gen. Qed.
Print Assumptions C11_search_flip_gen.

Theorem C11_search_flip_no_win_gen : forall b d, wf b = true -> legal_pos (abs b) = true -> Z.of_N (full b) + Z.of_nat d < 1048576 ->
  Minimax.nm board (succs tables) (noisy_succs tables) (noisy_any tables) (static tables) (terminal tables) qmeasure d b <= 15728640 ->
  Minimax.nm board (succs tables) (noisy_succs tables) (noisy_any tables) (static tables) (terminal tables) qmeasure d (flip b) =
  Minimax.nm board (succs tables) (noisy_succs tables) (noisy_any tables) (static tables) (terminal tables) qmeasure d b.
Proof. exact nm_flip_no_win_gen. Qed.
Print Assumptions C11_search_flip_no_win_gen.

Theorem C11_reported_flip_gen : forall b d, wf b = true -> legal_pos (abs b) = true -> Z.of_N (full b) + Z.of_nat d < 1048576 ->
  score_from_value tables (Minimax.nm board (succs tables) (noisy_succs tables) (noisy_any tables) (static tables) (terminal tables) qmeasure d (flip b)) (flip b) =
  score_from_value tables (Minimax.nm board (succs tables) (noisy_succs tables) (noisy_any tables) (static tables) (terminal tables) qmeasure d b) b.
Proof. exact reported_flip_gen. Qed.
Print Assumptions C11_reported_flip_gen.

(* ================================================================== *)
(* what does NOT hold (witnesses by computation, Proofs/RulesFlip.v part 9, Proofs/SearchFlip.v part 6) *)
(* ================================================================== *)

(* the enumeration order of Rules.legal_moves is not preserved: only Permutation (witness: the start position) *)
Theorem C11_legal_moves_flip_not_list : exists p,
  legal_pos p = true /\ legal_moves (flip_pos p) <> map flip_umove (legal_moves p).
Proof. exact legal_moves_flip_not_list. Qed.
Print Assumptions C11_legal_moves_flip_not_list.

(* exact equality of the successor fails on the full-move number: after White's e2e4 it is still 1, after the twin's
   (Black's) e7e5 it is 2 *)
Theorem C11_apply_flip_refuted : exists p u,
  legal_pos p = true /\ In u (legal_moves p) /\ apply (flip_pos p) (flip_umove u) <> flip_pos (apply p u) /\
  fullc (apply (flip_pos p) (flip_umove u)) = 2%N /\ fullc (flip_pos (apply p u)) = 1%N.
Proof. exact apply_flip_refuted. Qed.
Print Assumptions C11_apply_flip_refuted.

(* with two kings of one colour `in_check` looks at the first one in square order, which the flip changes
   (two_kings: white kings a8 and h1, black rook b8, black king e6) *)
Theorem C11_in_check_flip_needs_one_king :
  in_check two_kings White = true /\ in_check (flip_pos two_kings) (opp White) = false /\ count_kind two_kings White King = 2%nat.
Proof. exact in_check_flip_needs_one_king. Qed.
Print Assumptions C11_in_check_flip_needs_one_king.

(* mate1 = "6k1/5ppp/8/8/8/8/8/R5K1 w - - 0 30", a mate in one: the white root at move 30 scores W - 30, the black twin
   (mate on the board at move 31) W - 31; both are reported as `mate 1` *)
Theorem C11_search_flip_refuted_as_equality :
  wf mate1 = true /\ legal_pos (abs mate1) = true /\
  Minimax.nm board (succs tables) (noisy_succs tables) (noisy_any tables) (static tables) (terminal tables) qmeasure 1 mate1 = 16777216 - 30 /\
  Minimax.nm board (succs tables) (noisy_succs tables) (noisy_any tables) (static tables) (terminal tables) qmeasure 1 (flip mate1) = 16777216 - 31 /\
  score_from_value tables (16777216 - 30) mate1 = Mate 1 /\ score_from_value tables (16777216 - 31) (flip mate1) = Mate 1.
Proof. exact nm_flip_refuted_as_equality. Qed.
Print Assumptions C11_search_flip_refuted_as_equality.

(* the children of the twin carry a full-move number that is one off: the hypothesis `succs (fl p) ~ map fl (succs p)`
   of the involution form C11_search_symmetric fails for chess *)
Theorem C11_succs_flip_clock_offset :
  let b := board_of_text STARTPOS in
  length (succs tables b) = 20%nat /\ length (succs tables (flip b)) = 20%nat /\
  forallb (fun c => (full (flip c) =? 1)%N) (succs tables b) = true /\
  forallb (fun c' => (full c' =? 2)%N) (succs tables (flip b)) = true.
Proof. exact succs_flip_clock_offset. Qed.
Print Assumptions C11_succs_flip_clock_offset.

(* ================================================================== *)
(* examples                                                            *)
(* ================================================================== *)

Definition subset (l1 l2 : list mv) : bool := forallb (fun u => existsb (mv_eqb u) l2) l1.
Definition same_set (l1 l2 : list mv) : bool := subset l1 l2 && subset l2 l1 && Nat.eqb (length l1) (length l2).

(* a middlegame position with all four castling rights and an e.p. square (d6), and its twin:
   (wf, legal_pos, wf twin, legal_pos twin, abs (flip b) = flip_pos (abs b) componentwise,
    #legal rules, #legal rules twin, same set after flip_umove, same LIST?,
    #legal model twin vs rules twin: same set) *)
Definition pos_eqb (p q : pos) : bool :=
  forallb (fun s => match get p s, get q s with
                    | Some (c, k), Some (c', k') => color_eqb c c' && kind_eqb k k' | None, None => true | _, _ => false end) squares
  && color_eqb (to_move p) (to_move q) && Bool.eqb (wk p) (wk q) && Bool.eqb (wq p) (wq q) && Bool.eqb (bk p) (bk q) && Bool.eqb (bq p) (bq q)
  && match epsq p, epsq q with Some a, Some b => a =? b | None, None => true | _, _ => false end
  && (halfc p =? halfc q)%N && (fullc p =? fullc q)%N.

Definition observe (fen : str) :=
  match from_fen_string fen with
  | inr b =>
      let p := abs b in let p' := flip_pos p in
      Some ((wf b, legal_pos p, wf (flip b), legal_pos (abs (flip b)), pos_eqb (abs (flip b)) p'),
            (length (legal_moves p), length (legal_moves p'),
             same_set (legal_moves p') (map flip_umove (legal_moves p)),
             list_eqb (legal_moves p') (map flip_umove (legal_moves p))),
            same_set (map uci_of (gen_legal tables (flip b))) (map flip_umove (map uci_of (gen_legal tables b))),
            epsq p, epsq p')
  | inl _ => None
  end.

Example C11_ex_middlegame_moves :
  observe (lit "r3k2r/pp3ppp/2n1pn2/2bpP3/8/2N2N2/PPP1BPPP/R3K2R w KQkq d6 0 9") =
    Some ((true, true, true, true, true), (37%nat, 37%nat, true, false), true, Some 19, Some 43).
Proof. vm_compute. reflexivity. Qed.

(* the twin as FEN: the model's flip agrees with the colour-flipped text *)
Example C11_ex_middlegame_twin_fen :
  match from_fen_string (lit "r3k2r/pp3ppp/2n1pn2/2bpP3/8/2N2N2/PPP1BPPP/R3K2R w KQkq d6 0 9"),
        from_fen_string (lit "r3k2r/ppp1bppp/2n2n2/8/2BPp3/2N1PN2/PP3PPP/R3K2R b KQkq d3 0 9") with
  | inr b, inr b' => flip b = b' /\ flip b' = b
  | _, _ => False
  end.
Proof. vm_compute. split; reflexivity. Qed.

(* hypotheses of the search theorems hold and the two depth-1 values agree (castling rights and an e.p. capture
   available; 28 legal moves) *)
Example C11_ex_search_depth1 :
  match from_fen_string (lit "r3k2r/8/8/3pP3/8/8/8/R3K2R w KQkq d6 0 9") with
  | inr b =>
      wf b = true /\ legal_pos (abs b) = true /\ Z.of_N (full b) + 1 < max_full_moves tables /\
      length (succs tables b) = 28%nat /\
      Minimax.nm board (succs tables) (noisy_succs tables) (noisy_any tables) (static tables) (terminal tables) qmeasure 1 (flip b) =
      Minimax.nm board (succs tables) (noisy_succs tables) (noisy_any tables) (static tables) (terminal tables) qmeasure 1 b
  | inl _ => False
  end.
Proof. vm_compute. repeat split; reflexivity. Qed.

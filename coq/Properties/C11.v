(* C11 - Evaluation is colour-symmetric; terminal scores have the right sign.
   Model: Model/Heuristic.v (evaluate, evaluate_ongoing, piece_value, game_stage, piece_square_value,
   score_from_value, is_checkmate, heuristic_factor; heuristic.rs + heuristic/simple.rs + search.rs) over the
   regenerated data Gen/Tables.v; check detection of Model/Board.v.
   `flip` (Proofs/EvalProofs.v) = mirror the board vertically, swap the colours of all pieces, the side to move and
   the castling rights, mirror the e.p. square; both clocks unchanged.  `mover_value T b lr` =
   heuristic_factor (turn b) * evaluate T b lr  (search.rs `evaluate`: the value from the mover's point of view).
   Only pinned statements here (proofs: Proofs/EvalProofs.v), the obligations on the regenerated tables
   (re-checked by vm_compute on every run) and examples.

   Side conditions, in one place:
   - bitboards are u64 values (`bbs_u64 b`; implied by `wf b`), `turn b < 2`;
   - table obligations `pst_mirror_ok T` (black[st][p][mirror sq] = - white[st][p][sq], 3 x 6 x 64) and
     `draw_score T = 0`; for the terminal branch of `evaluate` also `tables_attacks_ok T` (C04) and `wf b`;
   - terminal scores: `full b < 2^31`; sign correct for full < 2^24, `Mate` reported for full < 2^23, is_checkmate
     for full < 2^20 (known finding D17: C11_terminal_refuted_at_2p23 / _at_2p24);
   - at the mated position itself score_from_value reports `Mate 0` (NOT a negative distance); from an ancestor
     (root) position the mated side gets a negative, the mating side a positive distance (C11_reported_mate);
   - search symmetry is proved on the abstract game of Spec/Minimax.v; the chess instantiation of its hypotheses
     is future work, and needs the relational form (C11_search_bisimulation) because the full-move clock of the
     twin runs half a move out of step (see C11_mate_distance_flip and the comment in Proofs/EvalProofs.v Part 9). *)
Require Import Ink.Lib.Str.
Require Import NArith ZArith List Bool Permutation.
Import ListNotations.
Require Import Ink.Lib.Bits Ink.Model.Tables Ink.Model.Board Ink.Model.Fen Ink.Model.Heuristic.
Require Import Ink.Proofs.AttackProofs Ink.Proofs.EvalProofs.
Require Ink.Spec.Minimax.
Require Import Ink.Gen.Tables Ink.Gen.SweepAll.
Open Scope N_scope.

(* ================================================================== *)
(* obligations on the regenerated tables (re-checked on every run)     *)
(* ================================================================== *)

(* BLACK_TABLES[st][p][mirror sq] = - WHITE_TABLES[st][p][sq] for all 3 x 6 x 64 entries; shapes 3 x 6 x 64 *)
Theorem C11_gen_pst_mirror_ok : pst_mirror_ok tables = true.
Proof. vm_compute. reflexivity. Qed.
Print Assumptions C11_gen_pst_mirror_ok.

Theorem C11_gen_draw_score : draw_score tables = 0%Z.
Proof. reflexivity. Qed.
Print Assumptions C11_gen_draw_score.

Theorem C11_gen_eval_tables_ok : eval_tables_ok tables = true.
Proof. vm_compute. reflexivity. Qed.
Print Assumptions C11_gen_eval_tables_ok.

Theorem C11_gen_consts :
  win_score tables = 16777216%Z /\ max_full_moves tables = 1048576%Z /\ max_half_moves tables = 100.
Proof. repeat split; reflexivity. Qed.
Print Assumptions C11_gen_consts.

(* rustc's const evaluation of `mirror_and_flip_sign(WHITE_TABLES)` equals the Coq model of that const fn *)
Theorem C11_gen_const_fn : pst_black tables = mirror_and_flip_sign (pst_white tables).
Proof. vm_compute. reflexivity. Qed.
Print Assumptions C11_gen_const_fn.

(* ... and the const fn produces mirror-related tables from ANY well-shaped white tables *)
Theorem C11_const_fn_gives_mirror_ok : forall T,
  length (pst_white T) = 3%nat ->
  (forall st, st < 3 -> length (nthN (pst_white T) st []) = 6%nat) ->
  (forall st p, st < 3 -> p < 6 -> length (nthN (nthN (pst_white T) st []) p []) = 64%nat) ->
  pst_black T = mirror_and_flip_sign (pst_white T) ->
  pst_mirror_ok T = true.
Proof. exact const_fn_gives_mirror_ok. Qed.
Print Assumptions C11_const_fn_gives_mirror_ok.

Theorem C11_pst_mirror_entry : forall T st p sq, pst_mirror_ok T = true -> st < 3 -> p < 6 -> sq < 64 ->
  nthN (nthN (nthN (pst_black T) st []) p []) (mirror sq) 0%Z
  = (- nthN (nthN (nthN (pst_white T) st []) p []) sq 0)%Z.
Proof. exact pst_mirror_entry. Qed.
Print Assumptions C11_pst_mirror_entry.

(* ================================================================== *)
(* the mirror of a bitboard and the flip of a board                    *)
(* ================================================================== *)

Theorem C11_flip_bb_testbit : forall x s, x < 2 ^ 64 -> s < 64 -> N.testbit (flip_bb x) s = N.testbit x (N.lxor s 56).
Proof. exact flip_bb_testbit. Qed.
Print Assumptions C11_flip_bb_testbit.

(* for every word and every bit position *)
Theorem C11_flip_bb_spec : forall x s, N.testbit (flip_bb x) s = (s <? 64) && N.testbit x (mirror s).
Proof. exact flip_bb_spec. Qed.
Print Assumptions C11_flip_bb_spec.

Theorem C11_mirror_facts : forall s, s < 64 ->
  mirror s < 64 /\ mirror s = 8 * (7 - s / 8) + s mod 8 /\ mirror s mod 8 = s mod 8 /\ mirror s / 8 = 7 - s / 8.
Proof. exact mirror_facts. Qed.
Print Assumptions C11_mirror_facts.

Theorem C11_popcount_flip_bb : forall x, x < 2 ^ 64 -> popcount (flip_bb x) = popcount x.
Proof. exact popcount_flip_bb. Qed.
Print Assumptions C11_popcount_flip_bb.

Theorem C11_bits_of_flip_perm : forall x, x < 2 ^ 64 -> Permutation (bits_of (flip_bb x)) (map mirror (bits_of x)).
Proof. exact bits_of_flip_perm. Qed.
Print Assumptions C11_bits_of_flip_perm.

Theorem C11_flip_bb_involutive : forall x, x < 2 ^ 64 -> flip_bb (flip_bb x) = x.
Proof. exact flip_bb_involutive. Qed.
Print Assumptions C11_flip_bb_involutive.

Theorem C11_flip_involutive : forall b, bbs_u64 b -> turn b < 2 -> ep b <> 56 -> flip (flip b) = b.
Proof. exact flip_involutive. Qed.
Print Assumptions C11_flip_involutive.

(* the twin of a well-formed board is well-formed *)
Theorem C11_flip_wf : forall b, wf b = true -> wf (flip b) = true.
Proof. exact flip_wf. Qed.
Print Assumptions C11_flip_wf.

(* ================================================================== *)
(* static evaluation                                                   *)
(* ================================================================== *)

Theorem C11_piece_square_sum_as_sum : forall occ tbl,
  piece_square_sum occ tbl = zsum (map (fun s => nthN tbl s 0%Z) (bits_of occ)).
Proof. exact piece_square_sum_as_sum. Qed.
Print Assumptions C11_piece_square_sum_as_sum.

Theorem C11_piece_square_sum_flip : forall occ w k, occ < 2 ^ 64 ->
  (forall s, s < 64 -> nthN k (mirror s) 0%Z = (- nthN w s 0)%Z) ->
  piece_square_sum (flip_bb occ) k = (- piece_square_sum occ w)%Z.
Proof. exact piece_square_sum_flip. Qed.
Print Assumptions C11_piece_square_sum_flip.

Theorem C11_piece_value_flip : forall T p, p_u64 p -> piece_value T (flip_p p) = piece_value T p.
Proof. exact piece_value_flip. Qed.
Print Assumptions C11_piece_value_flip.

Theorem C11_game_stage_flip : forall b, bbs_u64 b -> game_stage (flip b) = game_stage b.
Proof. exact game_stage_flip. Qed.
Print Assumptions C11_game_stage_flip.

Theorem C11_piece_square_value_flip : forall T b, pst_mirror_ok T = true -> bbs_u64 b ->
  piece_square_value T (flip b) = (- piece_square_value T b)%Z.
Proof. exact piece_square_value_flip. Qed.
Print Assumptions C11_piece_square_value_flip.

(* ongoing branch, any board whose bitboards are u64 values *)
Theorem C11_static_ongoing : forall T b, pst_mirror_ok T = true -> bbs_u64 b ->
  evaluate_ongoing T (flip b) = (- evaluate_ongoing T b)%Z.
Proof. exact EvalProofs.C11_static_ongoing. Qed.
Print Assumptions C11_static_ongoing.

(* all branches; check detection as an explicit hypothesis (needed for legal_moves_remaining = false only) *)
Theorem C11_static_antisymmetric_gen : forall T b lr,
  pst_mirror_ok T = true -> draw_score T = 0%Z -> bbs_u64 b -> turn b < 2 ->
  (lr = false -> is_current_in_check T (flip b) = is_current_in_check T b) ->
  evaluate T (flip b) lr = (- evaluate T b lr)%Z.
Proof. exact EvalProofs.C11_static_antisymmetric_gen. Qed.
Print Assumptions C11_static_antisymmetric_gen.

(* the twin is in check iff the original is *)
Theorem C11_is_current_in_check_flip : forall T, tables_attacks_ok T = true -> forall b, wf b = true ->
  is_current_in_check T (flip b) = is_current_in_check T b.
Proof. exact is_current_in_check_flip. Qed.
Print Assumptions C11_is_current_in_check_flip.

Theorem C11_in_check_by_bits_flip : forall T, tables_attacks_ok T = true -> forall b c, wf b = true -> c < 2 ->
  in_check_by_bits T (flip b) (opposite c) = in_check_by_bits T b c.
Proof. exact in_check_by_bits_flip. Qed.
Print Assumptions C11_in_check_by_bits_flip.

(* all branches, every well-formed board, any table set that passes the boolean checks *)
Theorem C11_static_antisymmetric : forall T, tables_attacks_ok T = true -> forall b lr,
  pst_mirror_ok T = true -> draw_score T = 0%Z -> wf b = true ->
  evaluate T (flip b) lr = (- evaluate T b lr)%Z.
Proof. exact EvalProofs.C11_static_antisymmetric. Qed.
Print Assumptions C11_static_antisymmetric.

(* ... for the current tables *)
Theorem C11_static_antisymmetric_tables : forall b lr, wf b = true ->
  evaluate tables (flip b) lr = (- evaluate tables b lr)%Z.
Proof.
  exact (fun b lr => EvalProofs.C11_static_antisymmetric tables tables_ok b lr C11_gen_pst_mirror_ok C11_gen_draw_score).
Qed.
Print Assumptions C11_static_antisymmetric_tables.

(* from the mover's point of view the twin has the SAME value *)
Theorem C11_mover_value_symmetric_tables : forall b lr, wf b = true ->
  mover_value tables (flip b) lr = mover_value tables b lr.
Proof.
  exact (fun b lr => C11_mover_value_symmetric tables tables_ok b lr C11_gen_pst_mirror_ok C11_gen_draw_score).
Qed.
Print Assumptions C11_mover_value_symmetric_tables.

(* ================================================================== *)
(* terminal scores                                                     *)
(* ================================================================== *)

Theorem C11_terminal_value : forall T, draw_score T = 0%Z -> forall b, turn b < 2 ->
  (is_current_in_check T b = true -> mover_value T b false = (to_i32 (full b) - win_score T)%Z) /\
  (is_current_in_check T b = false -> mover_value T b false = 0%Z).
Proof. exact terminal_value. Qed.
Print Assumptions C11_terminal_value.

Theorem C11_terminal : forall T, draw_score T = 0%Z -> forall b, turn b < 2 -> full b < 2 ^ 31 -> (0 < win_score T)%Z ->
  let v := mover_value T b false in
  (is_current_in_check T b = true ->
     v = (Z.of_N (full b) - win_score T)%Z /\
     ((Z.of_N (full b) < win_score T)%Z -> (v < 0)%Z /\ (0 < - v)%Z) /\
     ((Z.of_N (full b) < win_score T - Z.quot (win_score T) 2)%Z ->
        (v < - Z.quot (win_score T) 2)%Z /\ (Z.quot (win_score T) 2 < - v)%Z /\ score_from_value T v b = Mate 0) /\
     ((Z.of_N (full b) < max_full_moves T)%Z -> is_checkmate T v = true /\ is_checkmate T (- v) = true)) /\
  (is_current_in_check T b = false ->
     v = 0%Z /\ score_from_value T v b = Cp 0 /\
     ((0 <= max_full_moves T <= win_score T)%Z -> is_checkmate T v = false)).
Proof. exact EvalProofs.C11_terminal. Qed.
Print Assumptions C11_terminal.

(* the current constants spelled out: no legal move, side to move b; v = value from the mover's point of view *)
Theorem C11_terminal_tables : forall b, turn b < 2 -> full b < 8388608 ->
  let v := mover_value tables b false in
  (is_current_in_check tables b = true ->
     v = (Z.of_N (full b) - 16777216)%Z /\ (v < -8388608)%Z /\ (8388608 < - v)%Z /\
     score_from_value tables v b = Mate 0 /\
     (full b < 1048576 -> is_checkmate tables v = true /\ is_checkmate tables (- v) = true)) /\
  (is_current_in_check tables b = false ->
     v = 0%Z /\ score_from_value tables v b = Cp 0 /\ is_checkmate tables v = false).
Proof. exact (C11_terminal_std tables eq_refl eq_refl eq_refl). Qed.
Print Assumptions C11_terminal_tables.

Theorem C11_mate_monotone : forall T, draw_score T = 0%Z -> forall b1 b2, turn b1 < 2 -> turn b2 < 2 ->
  is_current_in_check T b1 = true -> is_current_in_check T b2 = true ->
  full b1 < full b2 -> full b2 < 2 ^ 31 ->
  (mover_value T b1 false < mover_value T b2 false)%Z /\
  (- mover_value T b2 false < - mover_value T b1 false)%Z.
Proof. exact EvalProofs.C11_mate_monotone. Qed.
Print Assumptions C11_mate_monotone.

(* what is reported at a root position b0 for a mate that is on the board at full-move number fm *)
Theorem C11_reported_mate : forall T b0 fm, (0 < win_score T)%Z -> full b0 < 2 ^ 31 ->
  (fm < win_score T - Z.quot (win_score T) 2)%Z ->
  score_from_value T (win_score T - fm) b0
    = Mate (fm - Z.of_N (full b0) + (if (turn b0 =? WHITE)%N then 1 else 0))%Z /\
  score_from_value T (- (win_score T - fm)) b0 = Mate (- (fm - Z.of_N (full b0)))%Z.
Proof. exact EvalProofs.C11_reported_mate. Qed.
Print Assumptions C11_reported_mate.

Theorem C11_mate_distance_flip : forall T b0 fm, (0 < win_score T)%Z -> turn b0 < 2 -> full b0 < 2 ^ 31 ->
  let d := (if (turn b0 =? WHITE)%N then 1 else -1)%Z in
  (fm < win_score T - Z.quot (win_score T) 2)%Z -> (fm + d < win_score T - Z.quot (win_score T) 2)%Z ->
  score_from_value T (win_score T - (fm + d)) (flip b0) = score_from_value T (win_score T - fm) b0 /\
  score_from_value T (- (win_score T - fm)) (flip b0) = score_from_value T (- (win_score T - fm)) b0.
Proof. exact EvalProofs.C11_mate_distance_flip. Qed.
Print Assumptions C11_mate_distance_flip.

(* ---- known finding D17: the ranges are sharp ---- *)
Theorem C11_terminal_mate_as_cp : forall T, draw_score T = 0%Z -> forall b, turn b < 2 -> full b < 2 ^ 31 ->
  (0 < win_score T)%Z -> is_current_in_check T b = true ->
  (win_score T - Z.quot (win_score T) 2 <= Z.of_N (full b) <= win_score T + Z.quot (win_score T) 2)%Z ->
  score_from_value T (mover_value T b false) b = Cp (Z.of_N (full b) - win_score T).
Proof. exact EvalProofs.C11_terminal_mate_as_cp. Qed.
Print Assumptions C11_terminal_mate_as_cp.

Theorem C11_terminal_sign_flips : forall T, draw_score T = 0%Z -> forall b, turn b < 2 -> full b < 2 ^ 31 ->
  is_current_in_check T b = true -> (win_score T < Z.of_N (full b))%Z -> (0 < mover_value T b false)%Z.
Proof. exact EvalProofs.C11_terminal_sign_flips. Qed.
Print Assumptions C11_terminal_sign_flips.

Definition fools_mate_at (fullmove : str) : str :=
  lit "rnb1kbnr/pppp1ppp/8/4p3/6Pq/5P2/PPPPP2P/RNBQKBNR w KQkq - 1 " ++ fullmove.

(* documented witnesses: a real checkmate (no legal move, in check) at full-move number 2^23 is reported as a
   centipawn score and not classified as mate; at 2^24 + 1 the checkmated side gets a POSITIVE value *)
Theorem C11_terminal_refuted_at_2p23 : exists b,
  wf b = true /\ gen_legal tables b = [] /\ is_current_in_check tables b = true /\ full b = 8388608 /\
  mover_value tables b false = (-8388608)%Z /\
  score_from_value tables (mover_value tables b false) b = Cp (-8388608) /\
  is_checkmate tables (mover_value tables b false) = false.
Proof.
  destruct (from_fen_string (fools_mate_at (lit "8388608"))) as [e|b] eqn:E; [vm_compute in E; discriminate E|].
  exists b. vm_compute in E. injection E as <-. vm_compute. repeat split; reflexivity.
Qed.
Print Assumptions C11_terminal_refuted_at_2p23.

Theorem C11_terminal_refuted_at_2p24 : exists b,
  wf b = true /\ gen_legal tables b = [] /\ is_current_in_check tables b = true /\ full b = 16777217 /\
  mover_value tables b false = 1%Z /\
  score_from_value tables (mover_value tables b false) b = Cp 1 /\
  is_checkmate tables (mover_value tables b false) = false.
Proof.
  destruct (from_fen_string (fools_mate_at (lit "16777217"))) as [e|b] eqn:E; [vm_compute in E; discriminate E|].
  exists b. vm_compute in E. injection E as <-. vm_compute. repeat split; reflexivity.
Qed.
Print Assumptions C11_terminal_refuted_at_2p24.

(* ================================================================== *)
(* search symmetry (abstract game of Spec/Minimax.v)                   *)
(* ================================================================== *)

Theorem C11_search_bisimulation :
  forall (pos : Type) (succs noisy_succs : pos -> list pos) (noisy_any : pos -> bool) (static terminal : pos -> Z)
         (qmeasure : pos -> nat),
  Minimax.qmeasure_dec pos noisy_succs qmeasure ->
  forall sim : pos -> pos -> Prop,
  (forall p p', sim p p' -> matched pos sim (succs p) (succs p')) ->
  (forall p p', sim p p' -> matched pos sim (noisy_succs p) (noisy_succs p')) ->
  (forall p p', sim p p' -> noisy_any p = noisy_any p') ->
  (forall p p', sim p p' -> static p = static p') ->
  (forall p p', sim p p' -> succs p = [] -> terminal p = terminal p') ->
  forall d p p', sim p p' ->
  Minimax.nm pos succs noisy_succs noisy_any static terminal qmeasure d p
  = Minimax.nm pos succs noisy_succs noisy_any static terminal qmeasure d p'.
Proof. exact nm_sim. Qed.
Print Assumptions C11_search_bisimulation.

Theorem C11_qs_bisimulation :
  forall (pos : Type) (noisy_succs : pos -> list pos) (static : pos -> Z) (qmeasure : pos -> nat),
  Minimax.qmeasure_dec pos noisy_succs qmeasure ->
  forall sim : pos -> pos -> Prop,
  (forall p p', sim p p' -> matched pos sim (noisy_succs p) (noisy_succs p')) ->
  (forall p p', sim p p' -> static p = static p') ->
  forall p p', sim p p' ->
  Minimax.qs pos noisy_succs static qmeasure p = Minimax.qs pos noisy_succs static qmeasure p'.
Proof. exact qs_sim. Qed.
Print Assumptions C11_qs_bisimulation.

Theorem C11_search_symmetric :
  forall (pos : Type) (succs noisy_succs : pos -> list pos) (noisy_any : pos -> bool) (static terminal : pos -> Z)
         (qmeasure : pos -> nat),
  Minimax.qmeasure_dec pos noisy_succs qmeasure ->
  forall fl : pos -> pos,
  (forall p, Permutation (succs (fl p)) (map fl (succs p))) ->
  (forall p, Permutation (noisy_succs (fl p)) (map fl (noisy_succs p))) ->
  (forall p, noisy_any (fl p) = noisy_any p) ->
  (forall p, static (fl p) = static p) ->
  (forall p, succs p = [] -> terminal (fl p) = terminal p) ->
  forall d p,
  Minimax.nm pos succs noisy_succs noisy_any static terminal qmeasure d (fl p)
  = Minimax.nm pos succs noisy_succs noisy_any static terminal qmeasure d p.
Proof. exact EvalProofs.C11_search_symmetric. Qed.
Print Assumptions C11_search_symmetric.

Theorem C11_qs_symmetric :
  forall (pos : Type) (noisy_succs : pos -> list pos) (static : pos -> Z) (qmeasure : pos -> nat),
  Minimax.qmeasure_dec pos noisy_succs qmeasure ->
  forall fl : pos -> pos,
  (forall p, Permutation (noisy_succs (fl p)) (map fl (noisy_succs p))) ->
  (forall p, static (fl p) = static p) ->
  forall p, Minimax.qs pos noisy_succs static qmeasure (fl p) = Minimax.qs pos noisy_succs static qmeasure p.
Proof. exact EvalProofs.C11_qs_symmetric. Qed.
Print Assumptions C11_qs_symmetric.

(* ================================================================== *)
(* examples                                                            *)
(* ================================================================== *)

(* (wf, wf of the twin, evaluate, evaluate of the twin, mover's value, reported score, is_checkmate,
    in check, number of legal moves, game stage) *)
Definition observe (fen : str) (lr : bool) :=
  match from_fen_string fen with
  | inr b => Some (wf b, wf (flip b), evaluate tables b lr, evaluate tables (flip b) lr, mover_value tables b lr,
                   score_from_value tables (mover_value tables b lr) b, is_checkmate tables (mover_value tables b lr),
                   is_current_in_check tables b, length (gen_legal tables b), game_stage b)
  | inl _ => None
  end.

(* a middlegame position (the one of simple.rs's `evaluate` test) and its twin: opposite numbers; `flip` agrees with
   the colour-flipped FEN *)
Example C11_ex_middlegame :
  observe (lit "rn2k2r/ppp2ppp/8/3pPP2/3P1q2/P1KB4/P1P4P/3R2N1 b kq - 0 14") true
    = Some (true, true, (-1000)%Z, 1000%Z, 1000%Z, Cp 1000, false, false, 37%nat, 2) /\
  observe (lit "3r2n1/p1p4p/p1kb4/3p1Q2/3Ppp2/8/PPP2PPP/RN2K2R w KQ - 0 14") true
    = Some (true, true, 1000%Z, (-1000)%Z, 1000%Z, Cp 1000, false, false, 37%nat, 2) /\
  match from_fen_string (lit "rn2k2r/ppp2ppp/8/3pPP2/3P1q2/P1KB4/P1P4P/3R2N1 b kq - 0 14"),
        from_fen_string (lit "3r2n1/p1p4p/p1kb4/3p1Q2/3Ppp2/8/PPP2PPP/RN2K2R w KQ - 0 14") with
  | inr b, inr b' => flip b = b' /\ flip b' = b
  | _, _ => False
  end.
Proof. repeat split; vm_compute; reflexivity. Qed.

(* Italian game, stage MID: white is 30 centipawns behind on piece-square terms; the twin says +30 *)
Example C11_ex_opening :
  observe (lit "r1bqkb1r/pppp1ppp/2n2n2/4p3/2B1P3/5N2/PPPP1PPP/RNBQK2R w KQkq - 4 4") true
    = Some (true, true, (-30)%Z, 30%Z, (-30)%Z, Cp (-30), false, false, 33%nat, 1).
Proof. vm_compute. reflexivity. Qed.

(* white is checkmated (fool's mate, move 3): -2^24 + 3 from both points of view, `mate 0`, is_checkmate *)
Example C11_ex_white_mated :
  observe (lit "rnb1kbnr/pppp1ppp/8/4p3/6Pq/5P2/PPPPP2P/RNBQKBNR w KQkq - 1 3") false
    = Some (true, true, (-16777213)%Z, 16777213%Z, (-16777213)%Z, Mate 0, true, true, 0%nat, 1).
Proof. vm_compute. reflexivity. Qed.

(* black is checkmated (back rank, move 30): white's view +(2^24 - 30), mover's view -(2^24 - 30), `mate 0` *)
Example C11_ex_black_mated :
  observe (lit "R5k1/5ppp/8/8/8/8/8/6K1 b - - 0 30") false
    = Some (true, true, 16777186%Z, (-16777186)%Z, (-16777186)%Z, Mate 0, true, true, 0%nat, 2).
Proof. vm_compute. reflexivity. Qed.

(* the mating side one ply earlier (root: white to move at move 30, mate on the board at full-move 30) is told
   `mate 1`; so is the twin root (black to move at move 30, mate on the board at full-move 31) *)
Example C11_ex_mate_in_one_reported :
  match from_fen_string (lit "6k1/5ppp/8/8/8/8/8/R5K1 w - - 0 30") with
  | inr b0 => score_from_value tables (16777216 - 30) b0 = Mate 1 /\
              score_from_value tables (16777216 - 31) (flip b0) = Mate 1 /\
              score_from_value tables (- (16777216 - 31)) b0 = Mate (-1)
  | inl _ => False
  end.
Proof. vm_compute. repeat split; reflexivity. Qed.

(* stalemates for both colours score 0 *)
Example C11_ex_stalemate :
  observe (lit "7k/5K2/6Q1/8/8/8/8/8 b - - 0 1") false
    = Some (true, true, 0%Z, 0%Z, 0%Z, Cp 0, false, false, 0%nat, 2) /\
  observe (lit "8/8/8/8/8/6q1/5k2/7K w - - 0 1") false
    = Some (true, true, 0%Z, 0%Z, 0%Z, Cp 0, false, false, 0%nat, 2).
Proof. split; vm_compute; reflexivity. Qed.

(* D17 on the concrete mate: move 2^20 is the first that is_checkmate does not classify (still reported `mate 0`) *)
Example C11_ex_is_checkmate_band :
  observe (fools_mate_at (lit "1048576")) false
    = Some (true, true, (-15728640)%Z, 15728640%Z, (-15728640)%Z, Mate 0, false, true, 0%nat, 1).
Proof. vm_compute. reflexivity. Qed.

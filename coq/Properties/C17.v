(* Property C17: the PGN stream reader (with /verif/fixes/c17-pgn-reader.patch) returns every game of a file in
   the Lichess export layout completely, whatever the chunk size and however the underlying reader fragments
   its reads. *)
Require Import Ink.Lib.Str.
Require Import NArith List Bool.
Import ListNotations.
Require Import Ink.Model.PgnReader Ink.Spec.PgnSpec Ink.Proofs.PgnProofs.

(* The chunked reader over ANY fragmentation of the input returns what the reader over the plain byte list
   returns (games, errors and the point where iteration stops included). *)
Theorem C17_chunk_independent : forall bytes chunk frag,
  (1 <= chunk)%nat -> run_concrete chunk frag bytes = run_abstract bytes.
Proof. exact chunk_independent. Qed.
Print Assumptions C17_chunk_independent.

(* Every game, in order, with all tag pairs and all SAN moves with their comments. *)
Theorem C17_complete : forall games nl,
  layout_ok games -> run_abstract (render games nl) = map Ok (map raw_of games).
Proof. exact complete. Qed.
Print Assumptions C17_complete.

(* ... also when the file ends with any number of newlines (Lichess dumps end with a blank line) *)
Theorem C17_complete_trailing : forall games k,
  layout_ok games -> run_abstract (render_n games k) = map Ok (map raw_of games).
Proof. exact complete_n. Qed.
Print Assumptions C17_complete_trailing.

(* the two combined: the statement of the property *)
Theorem C17 : forall games nl chunk frag,
  layout_ok games -> (1 <= chunk)%nat ->
  run_concrete chunk frag (render games nl) = map Ok (map raw_of games).
Proof. exact reader_complete. Qed.
Print Assumptions C17.

(* The model's two extra outcomes (EPanic: "Assertion Error" / index out of range; EFuel: loop fuel exhausted) never
   occur, on ANY input, well-formed or not: every item is a game or one of the three Rust error values. *)
Theorem C17_fuel_suffices_no_panic : forall bytes chunk frag,
  (1 <= chunk)%nat -> Forall okr (run_concrete chunk frag bytes).
Proof. exact concrete_clean. Qed.
Print Assumptions C17_fuel_suffices_no_panic.

(* ---- examples: two games, Black castles (both sides of the board), clock comments, no trailing newline ---- *)
Definition clk (t : String.string) : option str := Some (lit " [%clk 0:0" ++ lit t ++ lit "] ").
Definition ex_game1 : game :=
  {| g_tags := [(lit "Event", lit "Rated Blitz game"); (lit "Site", lit "https://lichess.org/abc");
                (lit "Result", lit "0-1")];
     g_moves := [(lit "e4", clk "3:00"); (lit "e5", clk "3:00"); (lit "Nf3", clk "2:58"); (lit "Nc6", clk "2:59");
                 (lit "Bc4", clk "2:57"); (lit "Nf6", clk "2:58"); (lit "O-O", clk "2:55"); (lit "Bc5", clk "2:57");
                 (lit "d3", clk "2:54"); (lit "O-O", clk "2:56"); (lit "Bg5", clk "2:50"); (lit "h6", clk "2:55")];
     g_black_numbers := true; g_result := BlackWins |}.
Definition ex_game2 : game :=
  {| g_tags := [(lit "Event", lit "Rated Bullet game"); (lit "Site", lit "https://lichess.org/def");
                (lit "Result", lit "1/2-1/2")];
     g_moves := [(lit "d4", None); (lit "d5", None); (lit "Nc3", None); (lit "Nc6", None); (lit "Bf4", None);
                 (lit "Bf5", None); (lit "Qd2", None); (lit "Qd7", None); (lit "O-O-O", None); (lit "O-O-O", None);
                 (lit "e8=Q+", None); (lit "Nbxd2#", None)];
     g_black_numbers := false; g_result := Drawn |}.
Definition ex_file : list N := render [ex_game1; ex_game2] false.

Example ex_layout : layout_ok [ex_game1; ex_game2].
Proof. vm_compute. reflexivity. Qed.
Example ex_chunk_1 : run_concrete 1 [] ex_file = map Ok (map raw_of [ex_game1; ex_game2]).
Proof. vm_compute. reflexivity. Qed.
Example ex_chunk_2 : run_concrete 2 [1; 2; 1; 1; 2]%nat ex_file = map Ok (map raw_of [ex_game1; ex_game2]).
Proof. vm_compute. reflexivity. Qed.
Example ex_chunk_7 : run_concrete 7 [3; 7; 1; 100; 2; 5]%nat ex_file = map Ok (map raw_of [ex_game1; ex_game2]).
Proof. vm_compute. reflexivity. Qed.
Example ex_black_castles :
  map (fun r => match r with Ok g => map fst (snd g) | Err _ => [] end) (run_concrete 7 [] ex_file)
  = [map lit ["e4"; "e5"; "Nf3"; "Nc6"; "Bc4"; "Nf6"; "O-O"; "Bc5"; "d3"; "O-O"; "Bg5"; "h6"]%string;
     map lit ["d4"; "d5"; "Nc3"; "Nc6"; "Bf4"; "Bf5"; "Qd2"; "Qd7"; "O-O-O"; "O-O-O"; "e8=Q+"; "Nbxd2#"]%string].
Proof. vm_compute. reflexivity. Qed.

(* ---- the PINNED reader (frozen model `run_pinned`, tied to the pinned code on the same cases) violates the
        property: witnesses D13, D14, D15 (corpus/pgn.txt) ---- *)
Definition plain_game (site : String.string) (r : game_result) : game :=
  {| g_tags := [(lit "Event", lit "Rated Bullet game"); (lit "Site", lit site); (lit "White", lit "w");
                (lit "Black", lit "b")];
     g_moves := [(lit "d4", None); (lit "d5", None); (lit "c4", None); (lit "e6", None)];
     g_black_numbers := false; g_result := r |}.
Definition castle_game : game :=
  {| g_tags := [(lit "Event", lit "Rated Blitz game"); (lit "Site", lit "abc")];
     g_moves := [(lit "e4", None); (lit "e5", None); (lit "Nf3", None); (lit "Nc6", None); (lit "Bc4", None);
                 (lit "Bc5", None); (lit "O-O", None); (lit "O-O", None); (lit "d3", None); (lit "d6", None)];
     g_black_numbers := false; g_result := WhiteWins |}.

(* D15: the last (here: only) game is lost, the final token is not followed by a space *)
Example C17_pinned_refuted_D15 :
  layout_ok [plain_game "x" BlackWins] /\
  run_pinned 64 [] (render [plain_game "x" BlackWins] true) = [Err EClosed] /\
  run_pinned 64 [] (render [plain_game "x" BlackWins] false) = [Err EClosed].
Proof. vm_compute. auto. Qed.

(* D13: Black's `O-O` (no move number in front) is taken for the result token: the game is cut after White's O-O *)
Example C17_pinned_refuted_D13 :
  layout_ok [castle_game; plain_game "x" Drawn] /\
  run_pinned 64 [] (render [castle_game; plain_game "x" Drawn] true)
  = [Ok (g_tags castle_game, firstn 7 (g_moves castle_game)); Err EClosed].
Proof. vm_compute. auto. Qed.

(* D14: the result token is read across the blank line into `[Event`; the next game loses its first two tag lines *)
Example C17_pinned_refuted_D14 :
  layout_ok [plain_game "x" BlackWins; plain_game "y" WhiteWins; plain_game "z" Drawn] /\
  run_pinned 64 [] (render [plain_game "x" BlackWins; plain_game "y" WhiteWins; plain_game "z" Drawn] true)
  = [Ok (raw_of (plain_game "x" BlackWins));
     Ok (skipn 2 (g_tags (plain_game "y" WhiteWins)), g_moves (plain_game "y" WhiteWins));
     Err EClosed].
Proof. vm_compute. auto. Qed.

Theorem C17_pinned_refuted : exists games nl,
  layout_ok games /\ run_pinned 64 [] (render games nl) <> map Ok (map raw_of games).
Proof. exists [plain_game "x" BlackWins], true. split; [vm_compute; reflexivity | vm_compute; discriminate]. Qed.
Print Assumptions C17_pinned_refuted.

(* Property C15: UCI command text is parsed faithfully and never crashes the reader.
   Model: Ink.Model.UciParser (uci/src/uci/parser.rs, uci.rs, square.rs, piece.rs); spec: Ink.Spec.UciSpec (the
   GUI-to-engine grammar as a renderer); proofs: Ink.Proofs.UciProofs, Ink.Proofs.UciErrors; correspondence families
   `uciparse` and `ucimove` (Ink.Driver.RunUci / harness fam_uci.rs, run under catch_unwind in debug and release). *)
Require Import Ink.Lib.Str.
Require Import NArith List.
Import ListNotations.
Require Import Ink.Model.Fen Ink.Model.UciParser Ink.Spec.UciSpec Ink.Driver.RunUci Ink.Proofs.UciProofs Ink.Proofs.UciErrors.
Open Scope N_scope.

(* ---------- move text ---------- *)
(* all 64 x 64 x 7 moves: formatting and parsing back gives the same move *)
Theorem C15_move_roundtrip : forall m, move_ok m -> parse_move (show_move m) = Some m.
Proof. exact move_roundtrip. Qed.
Print Assumptions C15_move_roundtrip.

(* what is accepted is a 4/5 character move text; its Display form is the text with the promotion letter in lower
   case (upper-case promotion letters, and the letters k and p, are accepted by design) *)
Theorem C15_move_exact : forall s m, parse_move s = Some m ->
  (length s = 4%nat \/ length s = 5%nat) /\ show_move m = map to_ascii_lower s /\ move_ok m.
Proof. exact move_exact. Qed.
Print Assumptions C15_move_exact.

(* ---------- totality: the model has no panic outcome ---------- *)
(* `parse_command : str -> parser_error + command` is a total function and no modelled primitive can panic; the only
   bounded loop (parse_go) never runs out of its fuel *)
Theorem C15_total_go_fuel : forall q g visited, go_loop (S (length q)) g visited q <> None.
Proof. exact parse_go_fuel. Qed.
Print Assumptions C15_total_go_fuel.

(* the model can never answer PANIC: a panic of the real reader on any case line is a correspondence mismatch *)
Theorem C15_total_no_panic_observation : forall line, run_uciparse line <> lit "PANIC" /\ run_ucimove line <> lit "PANIC".
Proof. exact never_panic_observation. Qed.
Print Assumptions C15_total_no_panic_observation.

(* ---------- lines that are not commands ---------- *)
Theorem C15_unknown : forall s w rest, words (trim s) = w :: rest -> ~ In w COMMANDS ->
  parse_command s = inl (UnknownCommand w).
Proof. exact parse_unknown. Qed.
Print Assumptions C15_unknown.

Theorem C15_empty : forall s, words (trim s) = [] -> parse_command s = inl UnexpectedEndOfCommand.
Proof. exact parse_empty. Qed.
Print Assumptions C15_empty.

(* a line is never read as a command other than the one its first word names *)
Theorem C15_first_word : forall s c, parse_command s = inr c -> exists rest, words (trim s) = command_word c :: rest.
Proof. exact parse_first_word. Qed.
Print Assumptions C15_first_word.

(* ---------- every well-formed line is parsed into exactly the command it spells ---------- *)
Theorem C15_roundtrip_simple : forall c lay, simple_command c -> layout_ok lay c -> parse_command (render c lay) = inr c.
Proof. exact roundtrip_simple. Qed.
Print Assumptions C15_roundtrip_simple.

Theorem C15_roundtrip_debug : forall b lay, layout_ok lay (SetDebug b) ->
  parse_command (render (SetDebug b) lay) = inr (SetDebug b).
Proof. exact roundtrip_debug. Qed.
Print Assumptions C15_roundtrip_debug.

Theorem C15_roundtrip_register : forall name code lay, cmd_ok (Register name code) -> layout_ok lay (Register name code) ->
  parse_command (render (Register name code) lay) = inr (Register name code).
Proof. exact roundtrip_register. Qed.
Print Assumptions C15_roundtrip_register.

Theorem C15_roundtrip_registerlater : forall lay, layout_ok lay RegisterLater ->
  parse_command (render RegisterLater lay) = inr RegisterLater.
Proof. exact roundtrip_registerlater. Qed.
Print Assumptions C15_roundtrip_registerlater.

Theorem C15_roundtrip_setoption : forall name lay, cmd_ok (SetOption name) -> layout_ok lay (SetOption name) ->
  parse_command (render (SetOption name) lay) = inr (SetOption name).
Proof. exact roundtrip_setoption. Qed.
Print Assumptions C15_roundtrip_setoption.

Theorem C15_roundtrip_setoptionvalue : forall name value lay,
  cmd_ok (SetOptionValue name value) -> layout_ok lay (SetOptionValue name value) ->
  parse_command (render (SetOptionValue name value) lay) = inr (SetOptionValue name value).
Proof. exact roundtrip_setoptionvalue. Qed.
Print Assumptions C15_roundtrip_setoptionvalue.

Theorem C15_roundtrip_position : forall t ms lay, cmd_ok (PositionFrom t ms) -> layout_ok lay (PositionFrom t ms) ->
  parse_command (render (PositionFrom t ms) lay) = inr (PositionFrom t ms).
Proof. exact roundtrip_position. Qed.
Print Assumptions C15_roundtrip_position.

(* the canonical-form conjunct of cmd_ok (PositionFrom ..) follows from the acceptance of the text by Fen::from_str *)
Theorem C15_fen_canonical : forall t f, fen_from_str t = inr f -> f_text f = t -> text_ok [lit "moves"] t.
Proof. exact fen_accepted_canonical. Qed.
Print Assumptions C15_fen_canonical.

Theorem C15_roundtrip_position_fen : forall t f ms lay, fen_from_str t = inr f -> f_text f = t -> Forall move_ok ms ->
  layout_ok lay (PositionFrom t ms) -> parse_command (render (PositionFrom t ms) lay) = inr (PositionFrom t ms).
Proof. exact roundtrip_position_fen. Qed.
Print Assumptions C15_roundtrip_position_fen.

(* go: any subset of the parameters, in any order, any spelling of the numbers *)
Theorem C15_roundtrip_go : forall g lay, cmd_ok (Go g) -> layout_ok lay (Go g) ->
  parse_command (render (Go g) lay) = inr (Go g).
Proof. exact roundtrip_go. Qed.
Print Assumptions C15_roundtrip_go.

Theorem C15_roundtrip : forall c lay, cmd_ok c -> layout_ok lay c -> parse_command (render c lay) = inr c.
Proof. exact roundtrip. Qed.
Print Assumptions C15_roundtrip.

(* the hypotheses of C15_roundtrip_go are satisfiable by a line that uses every freedom of the layout *)
Theorem C15_example :
  render (Go ex_go) ex_lay =
    [32; 9] ++ lit "go   infinite wtime  -5 searchmoves e2e4 a7a8q nodes 18446744073709551615 depth +007" ++ [160; 32; 13; 10]
  /\ cmd_ok (Go ex_go) /\ layout_ok ex_lay (Go ex_go).
Proof. exact ex_go_all. Qed.
Print Assumptions C15_example.

(* ---------- missing / ill-typed / duplicated parameters give the specific error ---------- *)
Theorem C15_errors_debug_missing : forall s, words (trim s) = [lit "debug"] -> parse_command s = inl UnexpectedEndOfCommand.
Proof. exact err_debug_missing. Qed.
Print Assumptions C15_errors_debug_missing.

Theorem C15_errors_debug_token : forall s t rest, words (trim s) = lit "debug" :: t :: rest -> t <> lit "on" -> t <> lit "off" ->
  parse_command s = inl (UnexpectedToken t).
Proof. exact err_debug_token. Qed.
Print Assumptions C15_errors_debug_token.

Theorem C15_errors_position_missing : forall s, words (trim s) = [lit "position"] -> parse_command s = inl UnexpectedEndOfCommand.
Proof. exact err_position_missing. Qed.
Print Assumptions C15_errors_position_missing.

Theorem C15_errors_position_token : forall s t rest, words (trim s) = lit "position" :: t :: rest ->
  t <> lit "fen" -> t <> lit "startpos" -> parse_command s = inl (UnexpectedToken t).
Proof. exact err_position_token. Qed.
Print Assumptions C15_errors_position_token.

Theorem C15_errors_position_fen_missing : forall s, words (trim s) = [lit "position"; lit "fen"] ->
  parse_command s = inl UnexpectedEndOfCommand.
Proof. exact err_position_fen_missing. Qed.
Print Assumptions C15_errors_position_fen_missing.

(* the words between `fen` and `moves` (or the end), joined by single spaces, are rejected by Fen::from_str *)
Theorem C15_errors_position_fen_invalid : forall s t0 ts rest e,
  words (trim s) = lit "position" :: lit "fen" :: t0 :: ts ++ rest ->
  ~ In (lit "moves") ts -> stops_here [lit "moves"] rest -> fen_from_str (join [32] (t0 :: ts)) = inl e ->
  parse_command s = inl InvalidFen.
Proof. exact err_position_fen_invalid. Qed.
Print Assumptions C15_errors_position_fen_invalid.

Theorem C15_errors_position_startpos_token : forall s t rest, words (trim s) = lit "position" :: lit "startpos" :: t :: rest ->
  t <> lit "moves" -> parse_command s = inl (UnexpectedToken t).
Proof. exact err_position_startpos_token. Qed.
Print Assumptions C15_errors_position_startpos_token.

(* after a well-formed position (either spelling) and any number of well-formed moves, an ill-formed move text *)
Theorem C15_errors_position_move : forall s t ms lay bad rest, cmd_ok (PositionFrom t ms) ->
  words (trim s) = tokens (PositionFrom t ms) lay ++
                   (match ms with [] => if lay_moves_kw lay then [] else [lit "moves"] | _ => [] end) ++ bad :: rest ->
  parse_move bad = None -> parse_command s = inl (InvalidUciMove bad).
Proof. exact err_position_move. Qed.
Print Assumptions C15_errors_position_move.

Theorem C15_errors_setoption_missing : forall s, words (trim s) = [lit "setoption"] -> parse_command s = inl UnexpectedEndOfCommand.
Proof. exact err_setoption_missing. Qed.
Print Assumptions C15_errors_setoption_missing.

Theorem C15_errors_setoption_token : forall s t rest, words (trim s) = lit "setoption" :: t :: rest -> t <> lit "name" ->
  parse_command s = inl (UnexpectedToken t).
Proof. exact err_setoption_token. Qed.
Print Assumptions C15_errors_setoption_token.

Theorem C15_errors_setoption_name_missing : forall s, words (trim s) = [lit "setoption"; lit "name"] ->
  parse_command s = inl UnexpectedEndOfCommand.
Proof. exact err_setoption_name_missing. Qed.
Print Assumptions C15_errors_setoption_name_missing.

Theorem C15_errors_setoption_value_missing : forall s name, text_ok [lit "value"] name ->
  words (trim s) = lit "setoption" :: lit "name" :: words name ++ [lit "value"] -> parse_command s = inl UnexpectedEndOfCommand.
Proof. exact err_setoption_value_missing. Qed.
Print Assumptions C15_errors_setoption_value_missing.

Theorem C15_errors_register_missing : forall s, words (trim s) = [lit "register"] -> parse_command s = inl UnexpectedEndOfCommand.
Proof. exact err_register_missing. Qed.
Print Assumptions C15_errors_register_missing.

Theorem C15_errors_register_token : forall s t rest, words (trim s) = lit "register" :: t :: rest ->
  t <> lit "later" -> t <> lit "name" -> parse_command s = inl (UnexpectedToken t).
Proof. exact err_register_token. Qed.
Print Assumptions C15_errors_register_token.

Theorem C15_errors_register_name_missing : forall s, words (trim s) = [lit "register"; lit "name"] ->
  parse_command s = inl UnexpectedEndOfCommand.
Proof. exact err_register_name_missing. Qed.
Print Assumptions C15_errors_register_name_missing.

Theorem C15_errors_register_code_missing : forall s name, text_ok [lit "code"] name ->
  words (trim s) = lit "register" :: lit "name" :: words name -> parse_command s = inl UnexpectedEndOfCommand.
Proof. exact err_register_code_missing. Qed.
Print Assumptions C15_errors_register_code_missing.

Theorem C15_errors_register_code_empty : forall s name, text_ok [lit "code"] name ->
  words (trim s) = lit "register" :: lit "name" :: words name ++ [lit "code"] -> parse_command s = inl UnexpectedEndOfCommand.
Proof. exact err_register_code_empty. Qed.
Print Assumptions C15_errors_register_code_empty.

(* go: after ANY well-formed sequence of parameters (any subset, order, spelling) ... *)
(* ... `depth x` / `wtime x` with x not a u64 / i64 *)
Theorem C15_errors_go_invalid_int : forall s lay g order k x rest, go_prefix_ok lay g order -> ~ In k order -> is_numeric k = true ->
  words (trim s) = lit "go" :: flat_map (item_tokens lay g) order ++ key_token k :: x :: rest ->
  (if is_duration k then parse_i64 x = None else parse_u64 x = None) ->
  parse_command s = inl InvalidInt.
Proof. exact err_go_invalid_int. Qed.
Print Assumptions C15_errors_go_invalid_int.

(* ... `wtime` at the end of the line *)
Theorem C15_errors_go_missing_value : forall s lay g order k, go_prefix_ok lay g order -> ~ In k order -> is_numeric k = true ->
  words (trim s) = lit "go" :: flat_map (item_tokens lay g) order ++ [key_token k] ->
  parse_command s = inl UnexpectedEndOfCommand.
Proof. exact err_go_missing_value. Qed.
Print Assumptions C15_errors_go_missing_value.

(* ... a parameter that was already given *)
Theorem C15_errors_go_duplicated : forall s lay g order k rest, go_prefix_ok lay g order -> In k order ->
  words (trim s) = lit "go" :: flat_map (item_tokens lay g) order ++ key_token k :: rest ->
  parse_command s = inl (DuplicatedToken (key_token k)).
Proof. exact err_go_duplicated. Qed.
Print Assumptions C15_errors_go_duplicated.

(* ... a word that is not a go parameter (directly after `searchmoves` and its moves it is read as a move, below) *)
Theorem C15_errors_go_unexpected : forall s lay g order t rest, go_prefix_ok lay g order -> ~ ends_with_searchmoves order ->
  words (trim s) = lit "go" :: flat_map (item_tokens lay g) order ++ t :: rest -> ~ In t GO_TOKENS ->
  parse_command s = inl (UnexpectedToken t).
Proof. exact err_go_unexpected. Qed.
Print Assumptions C15_errors_go_unexpected.

(* ... `searchmoves e2e4 e7e9` *)
Theorem C15_errors_go_searchmoves : forall s lay g order ms bad rest, go_prefix_ok lay g order -> ~ In KSearchMoves order ->
  words (trim s) = lit "go" :: flat_map (item_tokens lay g) order ++ lit "searchmoves" :: map show_move ms ++ bad :: rest ->
  Forall move_ok ms -> ~ In bad GO_TOKENS -> parse_move bad = None ->
  parse_command s = inl (InvalidUciMove bad).
Proof. exact err_go_searchmoves. Qed.
Print Assumptions C15_errors_go_searchmoves.

(* ---------- accepted although not spelled by the grammar: words after a complete command are ignored ---------- *)
Theorem C15_trailing_ignored_simple : forall s c lay rest, simple_command c -> words (trim s) = tokens c lay ++ rest ->
  parse_command s = inr c.
Proof. exact trailing_ignored_simple. Qed.
Print Assumptions C15_trailing_ignored_simple.

Theorem C15_trailing_ignored_debug : forall s b lay rest, words (trim s) = tokens (SetDebug b) lay ++ rest ->
  parse_command s = inr (SetDebug b).
Proof. exact trailing_ignored_debug. Qed.
Print Assumptions C15_trailing_ignored_debug.

Theorem C15_trailing_ignored_registerlater : forall s lay rest, words (trim s) = tokens RegisterLater lay ++ rest ->
  parse_command s = inr RegisterLater.
Proof. exact trailing_ignored_registerlater. Qed.
Print Assumptions C15_trailing_ignored_registerlater.

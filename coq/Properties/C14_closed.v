(* Property C14, closed: SAN output and SAN parsing of the MODEL (Model/Notation.v uci_to_pgn, pgn_to_bb) against the
   spec (Spec/SanSpec.v san, denotes, parse_san on Spec/Rules.v), with the hypothesis bundles of Properties/C14.v
   (C14_output) discharged by C01 (move generation), C02 (make), C03 (unmake) and C05 (check detection).
   Proofs: Proofs/SanClosed.v.  Only pinned statements here.

   Side conditions
     tables_attacks_ok T    C04; Gen tables: SweepAll.tables_ok
     tables_movegen_ok T    rank and castling masks; Gen tables: MoveGenProofs.gen_tables_movegen_ok
     wf b, legal_pos (abs b) = true     every legal position (as in Properties/C01_C02.v)
     half b < 4096          ONLY for "the argument board is handed back" in C14_output_converse (12-bit previous
                            half-move clock of the move record, C03)
   Every statement is given for an arbitrary table set T and, suffix _gen, for the regenerated tables of the tree. *)
Require Import Ink.Lib.Str.
Require Import NArith ZArith List Bool.
Import ListNotations.
Require Import Ink.Lib.Bits Ink.Model.Tables Ink.Model.Board Ink.Model.Fen Ink.Model.Notation.
Require Import Ink.Spec.Rules Ink.Spec.SanSpec.
Require Import Ink.Proofs.Abs Ink.Proofs.AttackProofs Ink.Proofs.MoveGenProofs Ink.Proofs.MakeUnmake.
Require Import Ink.Proofs.SanProofs Ink.Proofs.SanModelProofs Ink.Proofs.SanClosed.
Require Import Ink.Gen.Tables Ink.Gen.SweepAll.
Open Scope N_scope.

(* ================================================================== *)
(* 1. the two hypothesis bundles of C14_output hold                     *)
(* ================================================================== *)

(* gen_ok T b: legal moves of the model = legal moves of the rules (as sets of UCI triples); piece_moved is the kind of
   the mover's piece on the origin square; is_attack = is_capture of the rules (e.p. included); promo is 0 or N/B/R/Q *)
Theorem C14_gen_ok : forall T, tables_attacks_ok T = true -> tables_movegen_ok T = true ->
  forall b, wf b = true -> legal_pos (abs b) = true -> SanModelProofs.gen_ok T b.
Proof. exact gen_ok_closed. Qed.
Print Assumptions C14_gen_ok.

(* succ_ok T b r b1: make = Rules.apply; check detection on the successor = in_check; "some legal reply" = legal_moves <> [] *)
Theorem C14_succ_ok : forall T, tables_attacks_ok T = true -> tables_movegen_ok T = true ->
  forall b r b1, wf b = true -> legal_pos (abs b) = true ->
  In r (m_legal T b) -> make b r = Some b1 -> SanModelProofs.succ_ok T b r b1.
Proof. exact succ_ok_closed. Qed.
Print Assumptions C14_succ_ok.

(* ================================================================== *)
(* 2. the writer                                                        *)
(* ================================================================== *)

(* whatever text uci_to_pgn returns is the standard SAN of the legal move whose UCI text was given *)
Theorem C14_output_closed : forall T, tables_attacks_ok T = true -> tables_movegen_ok T = true ->
  forall b s text ob, wf b = true -> legal_pos (abs b) = true ->
  uci_to_pgn T b s = (inr text, ob) ->
  exists u, In u (legal_moves (abs b)) /\ uci u = trim s /\ text = san (abs b) u.
Proof. exact output_closed. Qed.
Print Assumptions C14_output_closed.

(* converse: every legal move of the rules gets its SAN; the board comes back (clock below 4096, see C03) *)
Theorem C14_output_converse : forall T, tables_attacks_ok T = true -> tables_movegen_ok T = true ->
  forall b u, wf b = true -> legal_pos (abs b) = true -> In u (legal_moves (abs b)) ->
  exists ob, uci_to_pgn T b (uci u) = (inr (san (abs b) u), ob) /\ (half b < 4096 -> ob = Some b).
Proof. exact output_converse. Qed.
Print Assumptions C14_output_converse.

(* the clock bound is needed: with half = 4096 the board that comes back has half = 0 (known finding of C03) *)
Theorem C14_output_converse_needs_half :
  exists b u ob, wf b = true /\ legal_pos (abs b) = true /\ In u (legal_moves (abs b)) /\ half b = 4096 /\
    uci_to_pgn tables b (uci u) = (inr (san (abs b) u), ob) /\ option_map half ob = Some 0.
Proof. exact output_converse_needs_half. Qed.
Print Assumptions C14_output_converse_needs_half.

(* ================================================================== *)
(* 3. the reader of the model: pgn_to_bb (PGN_REGEX + candidate filter)  *)
(* ================================================================== *)

(* reading back what the model wrote gives the original move *)
Theorem C14_reader_roundtrip_model : forall T, tables_attacks_ok T = true -> tables_movegen_ok T = true ->
  forall b, wf b = true -> legal_pos (abs b) = true ->
  forall s text ob, uci_to_pgn T b s = (inr text, ob) ->
  exists r, pgn_to_bb T b text = Some r /\ to_uci r = trim s /\ In (uci_of r) (legal_moves (abs b)).
Proof. exact reader_roundtrip_model. Qed.
Print Assumptions C14_reader_roundtrip_model.

(* reading the standard SAN of any legal move gives that move *)
Theorem C14_reader_roundtrip : forall T, tables_attacks_ok T = true -> tables_movegen_ok T = true ->
  forall b, wf b = true -> legal_pos (abs b) = true ->
  forall u, In u (legal_moves (abs b)) ->
  exists r, pgn_to_bb T b (san (abs b) u) = Some r /\ uci_of r = u.
Proof. exact reader_roundtrip. Qed.
Print Assumptions C14_reader_roundtrip.

(* EVERY string: if the spec reader finds the unique legal move the text denotes, the model reader returns it *)
Theorem C14_reader_complete : forall T, tables_attacks_ok T = true -> tables_movegen_ok T = true ->
  forall b, wf b = true -> legal_pos (abs b) = true ->
  forall s u, parse_san (abs b) s = POk u ->
  exists r, pgn_to_bb T b s = Some r /\ uci_of r = u /\ In r (gen_legal T b).
Proof. exact reader_complete. Qed.
Print Assumptions C14_reader_complete.

(* EVERY string: a move returned by the model reader is legal and is the only move the text can denote *)
Theorem C14_reader_sound : forall T, tables_attacks_ok T = true -> tables_movegen_ok T = true ->
  forall b, wf b = true -> legal_pos (abs b) = true ->
  forall s r, pgn_to_bb T b s = Some r ->
  In r (gen_legal T b) /\ In (uci_of r) (legal_moves (abs b)) /\ forall u, denotes (abs b) s u = true -> u = uci_of r.
Proof. exact reader_sound. Qed.
Print Assumptions C14_reader_sound.

(* EVERY string, both readers side by side.
   FULL STATEMENT (false, see C14_reader_eq_refuted: the model reader also answers three kinds of text that are not SAN):
     forall s, match pgn_to_bb T b s, parse_san (abs b) s with
               | Some r, POk u => uci_of r = u | None, PErr | None, PAmbiguous => True | _, _ => False end
   What holds:
     model Some r  ->  r legal, and spec POk (the same move) or spec PErr
     model None    ->  spec PErr or PAmbiguous
   hence: spec POk u -> model Some u;  spec PAmbiguous -> model None. *)
Theorem C14_reader_vs_parse_partial : forall T, tables_attacks_ok T = true -> tables_movegen_ok T = true ->
  forall b, wf b = true -> legal_pos (abs b) = true ->
  forall s,
  match pgn_to_bb T b s with
  | Some r => In (uci_of r) (legal_moves (abs b)) /\ (parse_san (abs b) s = POk (uci_of r) \/ parse_san (abs b) s = PErr)
  | None => parse_san (abs b) s = PErr \/ parse_san (abs b) s = PAmbiguous
  end.
Proof. exact reader_vs_parse. Qed.
Print Assumptions C14_reader_vs_parse_partial.

(* witnesses (current tables): a move comes back although the text is not SAN for the spec *)
Theorem C14_reader_eq_refuted :
  (exists b r, wf b = true /\ legal_pos (abs b) = true /\
     pgn_to_bb tables b (lit "Kg1") = Some r /\ to_uci r = lit "e1g1" /\ castle r = true /\
     parse_san (abs b) (lit "Kg1") = PErr) /\
  (exists b r, wf b = true /\ legal_pos (abs b) = true /\
     pgn_to_bb tables b (lit "Nf3=Q") = Some r /\ to_uci r = lit "g1f3" /\
     parse_san (abs b) (lit "Nf3=Q") = PErr) /\
  (exists b r, wf b = true /\ legal_pos (abs b) = true /\
     pgn_to_bb tables b (lit "e3e4") = Some r /\ to_uci r = lit "e2e4" /\
     parse_san (abs b) (lit "e3e4") = PErr).
Proof. exact reader_eq_refuted. Qed.
Print Assumptions C14_reader_eq_refuted.

(* ================================================================== *)
(* 4. the marks, in the words of the property                           *)
(* ================================================================== *)

(* `#` occurs in the text iff the successor position is checkmate by the rules; `+` iff check and not mate;
   neither after a stalemating move, neither when the move does not give check *)
Theorem C14_marks : forall T, tables_attacks_ok T = true -> tables_movegen_ok T = true ->
  forall b s text ob, wf b = true -> legal_pos (abs b) = true ->
  uci_to_pgn T b s = (inr text, ob) ->
  exists u, In u (legal_moves (abs b)) /\ uci u = trim s /\
    let p' := Rules.apply (abs b) u in
    (In 35 text <-> checkmate p' = true) /\
    (In 43 text <-> in_check p' (to_move p') = true /\ checkmate p' = false) /\
    (stalemate p' = true -> ~ In 35 text /\ ~ In 43 text) /\
    (in_check p' (to_move p') = false -> ~ In 35 text /\ ~ In 43 text).
Proof. exact marks_closed. Qed.
Print Assumptions C14_marks.

(* the same at the level of the spec text *)
Theorem C14_san_marks : forall p u, In u (legal_moves p) ->
  let p' := Rules.apply p u in
  (In 35 (san p u) <-> checkmate p' = true) /\
  (In 43 (san p u) <-> in_check p' (to_move p') = true /\ checkmate p' = false) /\
  (stalemate p' = true -> ~ In 35 (san p u) /\ ~ In 43 (san p u)) /\
  (in_check p' (to_move p') = false -> ~ In 35 (san p u) /\ ~ In 43 (san p u)).
Proof. exact san_marks. Qed.
Print Assumptions C14_san_marks.

(* ================================================================== *)
(* 5. the tables of the current tree: no table condition left           *)
(* ================================================================== *)

Theorem C14_gen_ok_gen : forall b, wf b = true -> legal_pos (abs b) = true -> SanModelProofs.gen_ok tables b.
Proof. exact (gen_ok_closed tables tables_ok gen_tables_movegen_ok). Qed.
Print Assumptions C14_gen_ok_gen.

Theorem C14_succ_ok_gen : forall b r b1, wf b = true -> legal_pos (abs b) = true ->
  In r (m_legal tables b) -> make b r = Some b1 -> SanModelProofs.succ_ok tables b r b1.
Proof. exact (succ_ok_closed tables tables_ok gen_tables_movegen_ok). Qed.
Print Assumptions C14_succ_ok_gen.

Theorem C14_output_closed_gen : forall b s text ob, wf b = true -> legal_pos (abs b) = true ->
  uci_to_pgn tables b s = (inr text, ob) ->
  exists u, In u (legal_moves (abs b)) /\ uci u = trim s /\ text = san (abs b) u.
Proof. exact (output_closed tables tables_ok gen_tables_movegen_ok). Qed.
Print Assumptions C14_output_closed_gen.

Theorem C14_output_converse_gen : forall b u, wf b = true -> legal_pos (abs b) = true -> In u (legal_moves (abs b)) ->
  exists ob, uci_to_pgn tables b (uci u) = (inr (san (abs b) u), ob) /\ (half b < 4096 -> ob = Some b).
Proof. exact (output_converse tables tables_ok gen_tables_movegen_ok). Qed.
Print Assumptions C14_output_converse_gen.

Theorem C14_reader_roundtrip_model_gen : forall b, wf b = true -> legal_pos (abs b) = true ->
  forall s text ob, uci_to_pgn tables b s = (inr text, ob) ->
  exists r, pgn_to_bb tables b text = Some r /\ to_uci r = trim s /\ In (uci_of r) (legal_moves (abs b)).
Proof. exact (reader_roundtrip_model tables tables_ok gen_tables_movegen_ok). Qed.
Print Assumptions C14_reader_roundtrip_model_gen.

Theorem C14_reader_roundtrip_gen : forall b, wf b = true -> legal_pos (abs b) = true ->
  forall u, In u (legal_moves (abs b)) ->
  exists r, pgn_to_bb tables b (san (abs b) u) = Some r /\ uci_of r = u.
Proof. exact (reader_roundtrip tables tables_ok gen_tables_movegen_ok). Qed.
Print Assumptions C14_reader_roundtrip_gen.

Theorem C14_reader_complete_gen : forall b, wf b = true -> legal_pos (abs b) = true ->
  forall s u, parse_san (abs b) s = POk u ->
  exists r, pgn_to_bb tables b s = Some r /\ uci_of r = u /\ In r (gen_legal tables b).
Proof. exact (reader_complete tables tables_ok gen_tables_movegen_ok). Qed.
Print Assumptions C14_reader_complete_gen.

Theorem C14_reader_sound_gen : forall b, wf b = true -> legal_pos (abs b) = true ->
  forall s r, pgn_to_bb tables b s = Some r ->
  In r (gen_legal tables b) /\ In (uci_of r) (legal_moves (abs b)) /\ forall u, denotes (abs b) s u = true -> u = uci_of r.
Proof. exact (reader_sound tables tables_ok gen_tables_movegen_ok). Qed.
Print Assumptions C14_reader_sound_gen.

Theorem C14_reader_vs_parse_partial_gen : forall b, wf b = true -> legal_pos (abs b) = true ->
  forall s,
  match pgn_to_bb tables b s with
  | Some r => In (uci_of r) (legal_moves (abs b)) /\ (parse_san (abs b) s = POk (uci_of r) \/ parse_san (abs b) s = PErr)
  | None => parse_san (abs b) s = PErr \/ parse_san (abs b) s = PAmbiguous
  end.
Proof. exact (reader_vs_parse tables tables_ok gen_tables_movegen_ok). Qed.
Print Assumptions C14_reader_vs_parse_partial_gen.

Theorem C14_marks_gen : forall b s text ob, wf b = true -> legal_pos (abs b) = true ->
  uci_to_pgn tables b s = (inr text, ob) ->
  exists u, In u (legal_moves (abs b)) /\ uci u = trim s /\
    let p' := Rules.apply (abs b) u in
    (In 35 text <-> checkmate p' = true) /\
    (In 43 text <-> in_check p' (to_move p') = true /\ checkmate p' = false) /\
    (stalemate p' = true -> ~ In 35 text /\ ~ In 43 text) /\
    (in_check p' (to_move p') = false -> ~ In 35 text /\ ~ In 43 text).
Proof. exact (marks_closed tables tables_ok gen_tables_movegen_ok). Qed.
Print Assumptions C14_marks_gen.

(* ================================================================== *)
(* 6. concrete positions (vm_compute): hypotheses hold, writer, reader  *)
(* ================================================================== *)
(* example_ok fen u t: the board of `fen` is well-formed and a legal position; the model writes `t` for the UCI move
   `u` and hands the board back; the model reader and the spec reader both map `t` back to `u` *)
Definition example_ok (fen u t : str) : Prop :=
  let b := board_of_text fen in
  wf b = true /\ legal_pos (abs b) = true /\
  uci_to_pgn tables b u = (inr t, Some b) /\
  option_map to_uci (pgn_to_bb tables b t) = Some u /\
  match parse_san (abs b) t with POk m => uci m = u | _ => False end.

(* three queens, two of them rivals on the mover's file resp. rank: file AND rank *)
Example C14_ex_three_queens : example_ok (lit "1k6/8/8/8/4Q2Q/8/8/K6Q w - - 0 1") (lit "h4e1") (lit "Qh4e1").
Proof. vm_compute. repeat split; reflexivity. Qed.
(* ... the rival on the same rank only: the file suffices; the rival on the same file only: the rank *)
Example C14_ex_queen_file : example_ok (lit "1k6/8/8/8/4Q2Q/8/8/K6Q w - - 0 1") (lit "e4e1") (lit "Qee1").
Proof. vm_compute. repeat split; reflexivity. Qed.
Example C14_ex_queen_rank : example_ok (lit "1k6/8/8/8/4Q2Q/8/8/K6Q w - - 0 1") (lit "h1e1") (lit "Q1e1").
Proof. vm_compute. repeat split; reflexivity. Qed.

(* two knights: different files -> file letter; same file -> rank digit *)
Example C14_ex_two_knights_file : example_ok (lit "4k3/8/8/8/8/5N2/8/1N2K3 w - - 0 1") (lit "b1d2") (lit "Nbd2").
Proof. vm_compute. repeat split; reflexivity. Qed.
Example C14_ex_two_knights_rank : example_ok (lit "4k3/8/8/8/8/1N6/8/1N2K3 w - - 0 1") (lit "b1d2") (lit "N1d2").
Proof. vm_compute. repeat split; reflexivity. Qed.

(* a mating move gets `#`, a checking move `+`, a stalemating move nothing *)
Example C14_ex_mate : example_ok (lit "6k1/5ppp/8/8/8/8/8/R3K3 w - - 0 1") (lit "a1a8") (lit "Ra8#").
Proof. vm_compute. repeat split; reflexivity. Qed.
Example C14_ex_check : example_ok (lit "4k3/8/8/8/8/8/8/R3K3 w - - 0 1") (lit "a1a8") (lit "Ra8+").
Proof. vm_compute. repeat split; reflexivity. Qed.
Example C14_ex_stalemate : example_ok (lit "7k/5K2/8/6Q1/8/8/8/8 w - - 0 1") (lit "g5g6") (lit "Qg6").
Proof. vm_compute. repeat split; reflexivity. Qed.

(* castling with check, en passant, capturing promotion with check *)
Example C14_ex_castle_check : example_ok (lit "5k2/8/8/8/8/8/8/4K2R w K - 0 1") (lit "e1g1") (lit "O-O+").
Proof. vm_compute. repeat split; reflexivity. Qed.
Example C14_ex_en_passant : example_ok (lit "4k3/8/8/3pP3/8/8/8/4K3 w - d6 0 1") (lit "e5d6") (lit "exd6").
Proof. vm_compute. repeat split; reflexivity. Qed.
Example C14_ex_promotion : example_ok (lit "r3k3/1P6/8/8/8/8/8/4K3 w q - 3 20") (lit "b7a8q") (lit "bxa8=Q+").
Proof. vm_compute. repeat split; reflexivity. Qed.

(* Property C08, closing the two avoidable hypotheses of the concrete depth >= 2 theorems (Properties/C08.v:
   C08_negamax_refines, C08_go_depth_concrete, C08_go_depth_chess).  Lemmas: Proofs/C08Closed.v.  Only pinned statements.

   1. ND, "distinct legal moves lead to distinct positions", is PROVED: C08_ND_chess for the family goodC of
      Proofs/C08Chess.v, C08_ND_model for every well-formed board with consistent castling rights and any table set that
      passes the regenerated obligations (proof on the bitboards, no condition on the e.p. square), C08_ND_legal for legal
      positions of the rules (second proof, through C01/C02 and Spec/Rules.v).
   2. `half root + D < 6` is replaced by [history_fresh] (C08_history_fresh_def): no entry of the engine's history that
      the repetition test of a tree position inspects equals the key of that position.  It holds after `position fen X`
      as soon as no key of the tree is 0 (C08_history_fresh_position_fen).  Every half-move clock is covered (goodC only
      asks half + depth + 130 < 4096, the 12-bit field of Move).
   3. The last `info` line of the go and the announced bestmove are the exact value nm D root and a move attaining it
      (C08_reported_score_exact, C08_reported_score_after_position_fen).

   What is still a hypothesis, and what it quantifies over:
     ply_unique board (succs GT) (zobrist_hash GT) sim D root
       = for all plies i, j <= D and all positions x, y reached from root by i resp. j LEGAL moves of the model
         (Minimax.at_ply over ChessGame.succs: make + is_valid), zobrist_hash x = zobrist_hash y implies i = j and
         sim (D - i) x y;  sim is any relation (chosen by the user of the theorem) under which the spec values nm r of
         depth r <= its index agree and which is monotone in the index (equality is one such relation).
     It says: no 64-bit key occurs at two different plies of the depth-D tree, and positions of one ply that share a key
     are similar.  It is used twice: the transposition table cannot return a value of a different draft (as before), and
     (new) an entry of the history written by the search itself is never mistaken for a repetition. *)
Require Import Ink.Lib.Str.
Require Import NArith ZArith List Bool Lia.
Import ListNotations.
Require Import Ink.Lib.Bits Ink.Model.Tables Ink.Model.Board Ink.Model.Fen Ink.Model.History Ink.Model.Heuristic Ink.Model.UciTx
        Ink.Model.Search.
Require Import Ink.Spec.Minimax Ink.Spec.Rules.
Require Import Ink.Proofs.Abs Ink.Proofs.AttackProofs Ink.Proofs.MoveGenProofs Ink.Proofs.MakeUnmake Ink.Proofs.MakeProofs.
Require Import Ink.Proofs.SearchProofs Ink.Proofs.SessionProofs Ink.Proofs.ChessGame Ink.Proofs.SearchRefine Ink.Proofs.C08Chess.
Require Import Ink.Proofs.C08Closed.
Open Scope N_scope.

(* ================================================================== *)
(* 1. ND                                                               *)

(* two generated moves of one position that `make` to the same board have the same (from, to, promotion) *)
Theorem C08_make_injective : forall T : Tables.t,
  tables_attacks_ok T = true -> tables_castle_ok T = true -> tables_ranks_ok T = true ->
  forall (b : board) (m1 m2 : move) (q : board),
  wf b = true -> rights_wf b = true -> ep_ok b -> is_valid T b = true ->
  In m1 (gen_pseudo T b) -> In m2 (gen_pseudo T b) -> make b m1 = Some q -> make b m2 = Some q -> uci_of m1 = uci_of m2.
Proof. exact make_inj_uci. Qed.
Print Assumptions C08_make_injective.

Theorem C08_ND_legal : forall T : Tables.t, tables_attacks_ok T = true -> tables_movegen_ok T = true ->
  forall b : board, wf b = true -> legal_pos (abs b) = true -> NoDup (ChessGame.succs T b).
Proof. exact succs_NoDup_legal. Qed.
Print Assumptions C08_ND_legal.

Theorem C08_ND_of_legal_family : forall (T : Tables.t) (good : nat -> board -> Prop),
  tables_attacks_ok T = true -> tables_movegen_ok T = true ->
  (forall n b, good n b -> wf b = true /\ legal_pos (abs b) = true) -> ND T good.
Proof. exact ND_of_legal. Qed.
Print Assumptions C08_ND_of_legal_family.

(* the same on the bitboards: no hypothesis on the e.p. square, none on check *)
Theorem C08_make_injective_model : forall T : Tables.t, ZobristProofs.gen_masks_ok T = true ->
  forall (b : board) (m1 m2 : move) (q : board), wf b = true -> ZobristProofs.castle_wf b = true ->
  In m1 (gen_pseudo T b) -> In m2 (gen_pseudo T b) -> make b m1 = Some q -> make b m2 = Some q ->
  src m1 = src m2 /\ dst m1 = dst m2 /\ promo m1 = promo m2.
Proof. exact make_inj_fields. Qed.
Print Assumptions C08_make_injective_model.

Theorem C08_ND_model : forall T : Tables.t, tables_attacks_ok T = true -> tables_movegen_ok T = true ->
  ZobristProofs.gen_masks_ok T = true ->
  forall b : board, wf b = true -> rights_wf b = true -> NoDup (ChessGame.succs T b).
Proof. exact succs_NoDup_model. Qed.
Print Assumptions C08_ND_model.

Theorem C08_ND_of_sane_family : forall (T : Tables.t) (good : nat -> board -> Prop),
  tables_attacks_ok T = true -> tables_movegen_ok T = true -> ZobristProofs.gen_masks_ok T = true ->
  (forall n b, good n b -> sane b = true) -> ND T good.
Proof. exact ND_of_sane. Qed.
Print Assumptions C08_ND_of_sane_family.

(* item 1 as asked: the hypothesis ND of C08_go_depth_chess *)
Theorem C08_ND_chess : forall (n : nat) (b : board), goodC n b -> NoDup (ChessGame.succs GT b).
Proof. exact succs_NoDup_chess. Qed.
Print Assumptions C08_ND_chess.

(* goodC is wider than the legal positions of the rules (e.p. square on a wrong rank): C08_ND_legal alone would not do *)
Theorem C08_goodC_not_legal_pos : exists n b, goodC n b /\ legal_pos (abs b) = false.
Proof. exact goodC_not_legal_pos. Qed.
Print Assumptions C08_goodC_not_legal_pos.

(* ================================================================== *)
(* 2. the history premise                                              *)

Theorem C08_history_fresh_def : forall (T : Tables.t) (h : hist) (D : nat) (root : board),
  history_fresh T h D root <->
  forall (i : nat) (y : board) (x : N), (1 <= i <= D)%nat -> at_ply board (ChessGame.succs T) root i y ->
    x mod 2 = ply_clock_w y mod 2 -> x + 4 <= ply_clock_w y -> ply_clock_w y - half y mod 65536 <= x ->
    hget h x <> zobrist_hash T y.
Proof. exact history_fresh_iff. Qed.
Print Assumptions C08_history_fresh_def.

(* the draw test of search_negamax finds nothing when no inspected entry equals the key *)
Theorem C08_visit_fresh : forall (h : hist) (ply pc zh hm : N),
  (forall x, Draws.in_window pc (hm mod 65536) x = true -> hget h x <> zh) -> snd (visit h ply pc zh hm) = false.
Proof. exact visit_fresh. Qed.
Print Assumptions C08_visit_fresh.

(* no node of the tree takes the repetition leaf, whatever the search has written into the history so far ([HI]) *)
Theorem C08_no_repetition_leaf : forall (T : Tables.t) (sim : nat -> board -> board -> Prop) (h0 : hist) (D : nat)
    (root : board) (h : hist) (i : nat) (y : board),
  RepetitionProofs.clock_ok root -> ply_unique board (ChessGame.succs T) (zobrist_hash T) sim D root ->
  history_fresh T h0 D root -> HI T h0 D root h -> (i <= D)%nat -> at_ply board (ChessGame.succs T) root i y ->
  snd (visit h (N.of_nat i) (ply_clock_w y) (zobrist_hash T y) (half y)) = false.
Proof. exact HI_visit. Qed.
Print Assumptions C08_no_repetition_leaf.

Theorem C08_HI_def : forall (T : Tables.t) (h0 : hist) (D : nat) (root : board) (h : hist),
  HI T h0 D root h <->
  forall x, hget h x = hget h0 x \/
            exists (i : nat) (y : board), (i <= D)%nat /\ at_ply board (ChessGame.succs T) root i y /\ ply_clock_w y = x /\
                                          hget h x = zobrist_hash T y.
Proof. exact HI_def. Qed.
Print Assumptions C08_HI_def.

(* after `position fen X` (no moves) the history is one entry; it is fresh when no key of the tree is 0 *)
Theorem C08_history_fresh_position_fen : forall (T : Tables.t) (sim : nat -> board -> board -> Prop) (D : nat) (f : fen)
    (st0 : sstate),
  let root := board_of_fen f in
  let st := set_position_from T f [] st0 in
  ply_unique board (ChessGame.succs T) (zobrist_hash T) sim D root ->
  (forall (i : nat) (y : board), (1 <= i <= D)%nat -> at_ply board (ChessGame.succs T) root i y -> zobrist_hash T y <> 0) ->
  s_board st = root /\ history_fresh T (s_history st) D (s_board st).
Proof. exact history_fresh_position_fen. Qed.
Print Assumptions C08_history_fresh_position_fen.

(* ---- node level (the counterpart of C08_negamax_refines): search_negamax = negamax_tt for SOME ordering oracle that is a
   permutation, at every node (ply i, i + k <= D) of the tree below root, for every half-move clock; [node_okH] spells it
   out (Proofs/C08Closed.v): it also hands on the history invariant HI ---- *)
Theorem C08_negamax_refines_any_clock : forall T : Tables.t, ZobristProofs.gen_masks_ok T = true ->
  forall (good : nat -> board -> Prop) (Q : nat), C03_family T good Q ->
  (forall n b, good n b -> sane b = true) ->
  ZobristProofs.keys_rows_ok T = true ->
  (forall n b, good n b -> (- win_score T < ChessGame.static T b < win_score T)%Z) ->
  forall orc : oracle, quiet orc ->
  forall (sim : nat -> board -> board -> Prop) (root : board) (D : nat) (h0 : hist),
  RepetitionProofs.clock_ok root -> ply_unique board (ChessGame.succs T) (zobrist_hash T) sim D root ->
  history_fresh T h0 D root ->
  forall K : nat, ((K <= 1)%nat \/ ND T good) -> forall k : nat, (k <= K)%nat ->
  node_okH T good Q (static_sat T) orc root D h0 k.
Proof. exact negamax_refines_closedH. Qed.
Print Assumptions C08_negamax_refines_any_clock.

(* ---- `go depth dd`, any table set ---- *)
Theorem C08_go_depth_closed_tables : forall (T : Tables.t) (good : nat -> board -> Prop) (Q : nat),
  tables_attacks_ok T = true -> tables_movegen_ok T = true ->
  ZobristProofs.gen_masks_ok T = true -> ZobristProofs.keys_rows_ok T = true -> (0 < win_score T)%Z ->
  C03_family T good Q ->
  (forall n b, good n b -> sane b = true) -> (forall n b, good n b -> 1 <= full b) ->
  (forall n b, good n b -> (- win_score T < ChessGame.static T b < win_score T)%Z) ->
  forall orc : oracle, quiet orc ->
  forall sim : nat -> board -> board -> Prop,
  (forall (r' r : nat) (x y : board), sim r' x y -> (r <= r')%nat ->
     nm board (ChessGame.succs T) (ChessGame.noisy_succs T) (ChessGame.noisy_any T) (static_sat T) (ChessGame.terminal T)
        ChessGame.qmeasure r x =
     nm board (ChessGame.succs T) (ChessGame.noisy_succs T) (ChessGame.noisy_any T) (static_sat T) (ChessGame.terminal T)
        ChessGame.qmeasure r y) ->
  (forall (r r' : nat) (x y : board), (r <= r')%nat -> sim r' x y -> sim r x y) ->
  forall (g : go_params) (st : sstate) (dd : N), g_depth g = Some dd -> plain_go g ->
  good (depth_of dd + S Q)%nat (s_board st) ->
  ply_unique board (ChessGame.succs T) (zobrist_hash T) sim (depth_of dd) (s_board st) ->
  history_fresh T (s_history st) (depth_of dd) (s_board st) ->
  root_empty T (s_board st) = false -> inb T (depth_of dd) (s_board st) ->
  Forall (fun it => exists d : nat, (S d <= depth_of dd)%nat /\ exact_rec T (static_sat T) (s_board st) d it)
         (fst (go_full T orc g st)) /\
  (ChessGame.succs T (s_board st) <> [] ->
   exists it rest, fst (go_full T orc g st) = it :: rest /\
                   exact_rec T (static_sat T) (s_board st) (pred (depth_of dd)) it).
Proof. exact go_depth_closed_tables. Qed.
Print Assumptions C08_go_depth_closed_tables.

(* ---- `go depth dd`, the tables of the current tree: every iteration's record is the exact nm d root and its move
   attains it; with a legal root move all iterations run ---- *)
Theorem C08_go_depth_closed : forall orc : oracle, quiet orc ->
  forall sim : nat -> board -> board -> Prop,
  (forall (r' r : nat) (x y : board), sim r' x y -> (r <= r')%nat ->
     nm board (ChessGame.succs GT) (ChessGame.noisy_succs GT) (ChessGame.noisy_any GT) (static_sat GT) (ChessGame.terminal GT)
        ChessGame.qmeasure r x =
     nm board (ChessGame.succs GT) (ChessGame.noisy_succs GT) (ChessGame.noisy_any GT) (static_sat GT) (ChessGame.terminal GT)
        ChessGame.qmeasure r y) ->
  (forall (r r' : nat) (x y : board), (r <= r')%nat -> sim r' x y -> sim r x y) ->
  forall (g : go_params) (st : sstate) (dd : N), g_depth g = Some dd -> plain_go g ->
  goodC (depth_of dd + 130)%nat (s_board st) ->
  ply_unique board (ChessGame.succs GT) (zobrist_hash GT) sim (depth_of dd) (s_board st) ->
  history_fresh GT (s_history st) (depth_of dd) (s_board st) ->
  root_empty GT (s_board st) = false -> full (s_board st) + N.of_nat (depth_of dd) < 16777216 ->
  Forall (fun it => exists d : nat, (S d <= depth_of dd)%nat /\ exact_rec GT (static_sat GT) (s_board st) d it)
         (fst (go_full GT orc g st)) /\
  (ChessGame.succs GT (s_board st) <> [] ->
   exists it rest, fst (go_full GT orc g st) = it :: rest /\
                   exact_rec GT (static_sat GT) (s_board st) (pred (depth_of dd)) it).
Proof. exact go_depth_closed_chess. Qed.
Print Assumptions C08_go_depth_closed.

Theorem C08_go_depth_after_position_fen : forall orc : oracle, quiet orc ->
  forall sim : nat -> board -> board -> Prop,
  (forall (r' r : nat) (x y : board), sim r' x y -> (r <= r')%nat ->
     nm board (ChessGame.succs GT) (ChessGame.noisy_succs GT) (ChessGame.noisy_any GT) (static_sat GT) (ChessGame.terminal GT)
        ChessGame.qmeasure r x =
     nm board (ChessGame.succs GT) (ChessGame.noisy_succs GT) (ChessGame.noisy_any GT) (static_sat GT) (ChessGame.terminal GT)
        ChessGame.qmeasure r y) ->
  (forall (r r' : nat) (x y : board), (r <= r')%nat -> sim r' x y -> sim r x y) ->
  forall (g : go_params) (f : fen) (st0 : sstate) (dd : N), g_depth g = Some dd -> plain_go g ->
  let root := board_of_fen f in
  let st := set_position_from GT f [] st0 in
  goodC (depth_of dd + 130)%nat root ->
  ply_unique board (ChessGame.succs GT) (zobrist_hash GT) sim (depth_of dd) root ->
  (forall (i : nat) (y : board), (1 <= i <= depth_of dd)%nat -> at_ply board (ChessGame.succs GT) root i y ->
     zobrist_hash GT y <> 0) ->
  root_empty GT root = false -> full root + N.of_nat (depth_of dd) < 16777216 ->
  Forall (fun it => exists d : nat, (S d <= depth_of dd)%nat /\ exact_rec GT (static_sat GT) root d it)
         (fst (go_full GT orc g st)) /\
  (ChessGame.succs GT root <> [] ->
   exists it rest, fst (go_full GT orc g st) = it :: rest /\
                   exact_rec GT (static_sat GT) root (pred (depth_of dd)) it).
Proof. exact go_depth_after_position_fen. Qed.
Print Assumptions C08_go_depth_after_position_fen.

(* ================================================================== *)
(* 3. what is printed                                                  *)

(* every oracle, every go: when the newest iteration is not aborted, the last `info` before `bestmove` reports it *)
Theorem C08_last_info_is_newest_iteration : forall (T : Tables.t) (orc : oracle) (g : go_params) (st : sstate)
    (it : iter_rec) (rest : list iter_rec),
  fst (go_full T orc g st) = it :: rest -> it_aborted it = false ->
  exists infos i ponder,
    go_msgs T orc g st = infos ++ [OInfo i; OBestmove (option_map uci_of_move (vm_mv (it_result it))) ponder] /\
    forallb is_info infos = true /\
    i_depth i = Some (it_depth it) /\
    i_score i = Some (score_from_value T (vm_value (it_result it)) (s_board (snd (go_full T orc g st)))) /\
    i_pv i = Some (map uci_of_move (calc_pv (it_result it))) /\
    ponder = nth_error (map uci_of_move (calc_pv (it_result it))) 1.
Proof. exact go_last_report. Qed.
Print Assumptions C08_last_info_is_newest_iteration.

(* `info depth D .. pv m .. score S` with S = score_from_value (nm D root) (rendered by UciTx.render_info: " score cp v" /
   " score mate n", C16), then `bestmove m`, where m is a legal move with  - nm (D-1) (make root m) = nm D root *)
Theorem C08_reported_score_exact : forall orc : oracle, quiet orc ->
  forall sim : nat -> board -> board -> Prop,
  (forall (r' r : nat) (x y : board), sim r' x y -> (r <= r')%nat ->
     nm board (ChessGame.succs GT) (ChessGame.noisy_succs GT) (ChessGame.noisy_any GT) (static_sat GT) (ChessGame.terminal GT)
        ChessGame.qmeasure r x =
     nm board (ChessGame.succs GT) (ChessGame.noisy_succs GT) (ChessGame.noisy_any GT) (static_sat GT) (ChessGame.terminal GT)
        ChessGame.qmeasure r y) ->
  (forall (r r' : nat) (x y : board), (r <= r')%nat -> sim r' x y -> sim r x y) ->
  forall (g : go_params) (st : sstate) (dd : N), g_depth g = Some dd -> plain_go g ->
  goodC (depth_of dd + 130)%nat (s_board st) ->
  ply_unique board (ChessGame.succs GT) (zobrist_hash GT) sim (depth_of dd) (s_board st) ->
  history_fresh GT (s_history st) (depth_of dd) (s_board st) ->
  full (s_board st) + N.of_nat (depth_of dd) < 16777216 ->
  ChessGame.succs GT (s_board st) <> [] ->
  exists infos i ponder m q,
    go_msgs GT orc g st = infos ++ [OInfo i; OBestmove (Some (uci_of_move m)) ponder] /\
    forallb is_info infos = true /\
    i_depth i = Some (N.of_nat (depth_of dd)) /\
    i_score i = Some (score_from_value GT
                        (nm board (ChessGame.succs GT) (ChessGame.noisy_succs GT) (ChessGame.noisy_any GT) (static_sat GT)
                            (ChessGame.terminal GT) ChessGame.qmeasure (depth_of dd) (s_board st)) (s_board st)) /\
    (exists pv, i_pv i = Some (uci_of_move m :: pv) /\ ponder = nth_error pv 0) /\
    make (s_board st) m = Some q /\ In q (ChessGame.succs GT (s_board st)) /\
    (- nm board (ChessGame.succs GT) (ChessGame.noisy_succs GT) (ChessGame.noisy_any GT) (static_sat GT) (ChessGame.terminal GT)
          ChessGame.qmeasure (pred (depth_of dd)) q)%Z =
    nm board (ChessGame.succs GT) (ChessGame.noisy_succs GT) (ChessGame.noisy_any GT) (static_sat GT) (ChessGame.terminal GT)
       ChessGame.qmeasure (depth_of dd) (s_board st).
Proof. exact reported_score_exact_chess. Qed.
Print Assumptions C08_reported_score_exact.

Theorem C08_reported_score_after_position_fen : forall orc : oracle, quiet orc ->
  forall sim : nat -> board -> board -> Prop,
  (forall (r' r : nat) (x y : board), sim r' x y -> (r <= r')%nat ->
     nm board (ChessGame.succs GT) (ChessGame.noisy_succs GT) (ChessGame.noisy_any GT) (static_sat GT) (ChessGame.terminal GT)
        ChessGame.qmeasure r x =
     nm board (ChessGame.succs GT) (ChessGame.noisy_succs GT) (ChessGame.noisy_any GT) (static_sat GT) (ChessGame.terminal GT)
        ChessGame.qmeasure r y) ->
  (forall (r r' : nat) (x y : board), (r <= r')%nat -> sim r' x y -> sim r x y) ->
  forall (g : go_params) (f : fen) (st0 : sstate) (dd : N), g_depth g = Some dd -> plain_go g ->
  let root := board_of_fen f in
  let st := set_position_from GT f [] st0 in
  goodC (depth_of dd + 130)%nat root ->
  ply_unique board (ChessGame.succs GT) (zobrist_hash GT) sim (depth_of dd) root ->
  (forall (i : nat) (y : board), (1 <= i <= depth_of dd)%nat -> at_ply board (ChessGame.succs GT) root i y ->
     zobrist_hash GT y <> 0) ->
  full root + N.of_nat (depth_of dd) < 16777216 ->
  ChessGame.succs GT root <> [] ->
  exists infos i ponder m q,
    go_msgs GT orc g st = infos ++ [OInfo i; OBestmove (Some (uci_of_move m)) ponder] /\
    forallb is_info infos = true /\
    i_depth i = Some (N.of_nat (depth_of dd)) /\
    i_score i = Some (score_from_value GT
                        (nm board (ChessGame.succs GT) (ChessGame.noisy_succs GT) (ChessGame.noisy_any GT) (static_sat GT)
                            (ChessGame.terminal GT) ChessGame.qmeasure (depth_of dd) root) root) /\
    (exists pv, i_pv i = Some (uci_of_move m :: pv) /\ ponder = nth_error pv 0) /\
    make root m = Some q /\ In q (ChessGame.succs GT root) /\
    (- nm board (ChessGame.succs GT) (ChessGame.noisy_succs GT) (ChessGame.noisy_any GT) (static_sat GT) (ChessGame.terminal GT)
          ChessGame.qmeasure (pred (depth_of dd)) q)%Z =
    nm board (ChessGame.succs GT) (ChessGame.noisy_succs GT) (ChessGame.noisy_any GT) (static_sat GT) (ChessGame.terminal GT)
       ChessGame.qmeasure (depth_of dd) root.
Proof. exact reported_score_after_position_fen. Qed.
Print Assumptions C08_reported_score_after_position_fen.

(* ================================================================== *)
(* 4. the premises on keys are decidable on a concrete tree; an example at half-move clock 40                          *)

Theorem C08_ply_unique_check_sound : forall (T : Tables.t) (D : nat) (root : board), ply_unique_check T D root = true ->
  ply_unique board (ChessGame.succs T) (zobrist_hash T) (fun _ x y => x = y) D root.
Proof. exact ply_unique_check_sound. Qed.
Print Assumptions C08_ply_unique_check_sound.

Theorem C08_keys_nonzero_check_sound : forall (T : Tables.t) (D : nat) (root : board), keys_nonzero_check T D root = true ->
  forall (i : nat) (y : board), (1 <= i <= D)%nat -> at_ply board (ChessGame.succs T) root i y -> zobrist_hash T y <> 0.
Proof. exact keys_nonzero_check_sound. Qed.
Print Assumptions C08_keys_nonzero_check_sound.

(* K+R+P against K+P, "8/5p2/8/4k3/8/3R4/4P3/4K3 w - - 40 60": the hypotheses of C08_reported_score_after_position_fen
   hold for `go depth 2` (sim = equality), all by computation *)
Example C08_closed_hypotheses_satisfiable :
  half ex40_root = 40 /\ full ex40_root = 60 /\
  RepetitionInstance.good_c10b GT 132 ex40_root = true /\
  ply_unique_check GT 2 ex40_root = true /\ keys_nonzero_check GT 2 ex40_root = true /\
  root_empty GT ex40_root = false /\ length (ChessGame.succs GT ex40_root) = 20%nat /\
  length (tree_nodes GT 2 ex40_root) = 169%nat.
Proof. repeat split; vm_compute; reflexivity. Qed.

(* with equality as [sim], ply_unique FAILS at depth 3 on this position: two move orders (pawn move first / last) reach the
   same placement at ply 3 with different half-move clocks -- a finer [sim] is needed from depth 3 on *)
Example C08_ply_unique_eq_fails_at_depth_3 : ply_unique_check GT 3 ex40_root = false.
Proof. vm_compute. reflexivity. Qed.

(* for EVERY quiet oracle and EVERY earlier engine state: `position fen <that>` + `go depth 2` ends with
   `info depth 2 .. score cp 430` and a bestmove m with  - nm 1 (make root m) = 430 = nm 2 root *)
Theorem C08_closed_example : forall orc : oracle, quiet orc -> forall st0 : sstate,
  exists infos i ponder m q,
    go_msgs GT orc ex40_go (set_position_from GT ex40_fen [] st0) =
      infos ++ [OInfo i; OBestmove (Some (uci_of_move m)) ponder] /\
    forallb is_info infos = true /\ i_depth i = Some 2 /\ i_score i = Some (Cp 430) /\
    make ex40_root m = Some q /\
    (- nm board (ChessGame.succs GT) (ChessGame.noisy_succs GT) (ChessGame.noisy_any GT) (static_sat GT) (ChessGame.terminal GT)
          ChessGame.qmeasure 1 q)%Z = 430%Z.
Proof. exact ex40_reported. Qed.
Print Assumptions C08_closed_example.

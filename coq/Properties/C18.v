(* C18 - Transposition store is a bounded map: exact lookups, size within capacity.
   Model: Model/HashTable.v (engine_core/src/engine/table.rs).  Spec: Spec/FifoMap.v.
   Only pinned statements here; proofs are in Proofs/HashTableProofs.v. *)
Require Import NArith List Bool Arith.
Import ListNotations.
Require Import Ink.Spec.FifoMap Ink.Model.HashTable Ink.Proofs.HashTableProofs.

(* ---- the implementation model never reaches `pop_front().unwrap()` on an empty queue ---- *)
Theorem C18_no_panic : forall (V : Type) (cap : nat) (ops : list (op V)), (1 <= cap)%nat ->
  exists t outs, HashTable.run V (HashTable.new V cap) ops = Some (t, outs).
Proof. exact no_panic. Qed.
Print Assumptions C18_no_panic.

(* ---- every answer equals the FIFO map's answer; the final state abstracts to the FIFO map's state ---- *)
Theorem C18_refines : forall (V : Type) (cap : nat) (ops : list (op V)), (1 <= cap)%nat ->
  exists t outs, HashTable.run V (HashTable.new V cap) ops = Some (t, outs) /\
    outs = snd (FifoMap.run V cap [] ops) /\
    exists s, s = fst (FifoMap.run V cap [] ops) /\
      HashTable.q V t = map fst s /\
      NoDup (HashTable.q V t) /\
      (forall k, HashTable.find V k (HashTable.m V t) = FifoMap.lookup V k s) /\
      length (HashTable.m V t) = length s /\
      NoDup (map fst (HashTable.m V t)).
Proof. exact refines. Qed.
Print Assumptions C18_refines.

(* ---- representation invariant: queue = key set of the map, no duplicates, fill level real and bounded ---- *)
Theorem C18_invariant : forall (V : Type) (cap : nat) (ops : list (op V)), (1 <= cap)%nat ->
  exists t outs, HashTable.run V (HashTable.new V cap) ops = Some (t, outs) /\
    NoDup (HashTable.q V t) /\
    (forall k, In k (HashTable.q V t) <-> HashTable.find V k (HashTable.m V t) <> None) /\
    (HashTable.len V t <= cap)%nat /\
    HashTable.len V t = length (HashTable.q V t) /\
    HashTable.cap V t = cap.
Proof. exact invariant. Qed.
Print Assumptions C18_invariant.

(* ---- what the spec says, in readable pieces ---- *)

(* (a) a Get right after a Put of the same key returns the value just stored *)
Theorem C18_put_get : forall (V : Type) (cap : nat) (s : fifo V) (k : K) (v : V),
  (1 <= cap)%nat -> (length s <= cap)%nat ->
  FifoMap.lookup V k (FifoMap.put V cap s k v) = Some v.
Proof. exact spec_put_get. Qed.
Print Assumptions C18_put_get.

Theorem C18_put_then_get : forall (V : Type) (cap : nat) (ops : list (op V)) (k : K) (v : V),
  (1 <= cap)%nat ->
  snd (FifoMap.run V cap (fst (FifoMap.run V cap [] ops)) [Put k v; Get k]) = [OUnit; OGet (Some v)].
Proof. exact spec_put_then_get. Qed.
Print Assumptions C18_put_then_get.

(* a Put of k changes the answer for another key x only if x was the oldest key and got evicted *)
Theorem C18_put_other : forall (V : Type) (cap : nat) (s : fifo V) (k : K) (v : V) (x : K),
  (1 <= cap)%nat -> NoDup (map fst s) /\ (length s <= cap)%nat -> x <> k ->
  FifoMap.lookup V x (FifoMap.put V cap s k v) =
  if andb (Nat.eqb (length s) cap)
          (andb (match FifoMap.lookup V k s with None => true | Some _ => false end)
                (match s with (h, _) :: _ => N.eqb x h | [] => false end))
  then None else FifoMap.lookup V x s.
Proof. exact spec_put_other. Qed.
Print Assumptions C18_put_other.

(* (b) re-putting a present key keeps the key order (its age is NOT refreshed) and the size *)
Theorem C18_reput_keeps_order : forall (V : Type) (cap : nat) (s : fifo V) (k : K) (v : V),
  (length s <= cap)%nat -> In k (map fst s) ->
  map fst (FifoMap.put V cap s k v) = map fst s /\ length (FifoMap.put V cap s k v) = length s.
Proof. exact spec_reput_keeps_order. Qed.
Print Assumptions C18_reput_keeps_order.

(* (c) full map + new (or previously evicted) key: exactly the oldest key disappears, new key is newest *)
Theorem C18_evicts_oldest : forall (V : Type) (cap : nat) (s : fifo V) (k : K) (v : V),
  (1 <= cap)%nat -> length s = cap -> ~ In k (map fst s) ->
  map fst (FifoMap.put V cap s k v) = tl (map fst s) ++ [k] /\ length (FifoMap.put V cap s k v) = cap.
Proof. exact spec_evicts_oldest. Qed.
Print Assumptions C18_evicts_oldest.

Theorem C18_appends_when_room : forall (V : Type) (cap : nat) (s : fifo V) (k : K) (v : V),
  (length s < cap)%nat -> ~ In k (map fst s) ->
  map fst (FifoMap.put V cap s k v) = map fst s ++ [k] /\ length (FifoMap.put V cap s k v) = S (length s).
Proof. exact spec_appends_when_room. Qed.
Print Assumptions C18_appends_when_room.

(* (d) Clear empties *)
Theorem C18_clear_empties : forall (V : Type) (cap : nat) (s : fifo V),
  fst (FifoMap.step V cap s Clear) = [] /\
  forall k, FifoMap.lookup V k (fst (FifoMap.step V cap s Clear)) = None.
Proof. exact spec_clear_empties. Qed.
Print Assumptions C18_clear_empties.

(* (e) the size never exceeds the capacity, keys stay distinct *)
Theorem C18_length_le_cap : forall (V : Type) (cap : nat) (ops : list (op V)),
  (length (fst (FifoMap.run V cap [] ops)) <= cap)%nat.
Proof. exact spec_length_le_cap. Qed.
Print Assumptions C18_length_le_cap.

Theorem C18_keys_nodup : forall (V : Type) (cap : nat) (ops : list (op V)),
  NoDup (map fst (fst (FifoMap.run V cap [] ops))).
Proof. exact spec_keys_nodup. Qed.
Print Assumptions C18_keys_nodup.

(* ---- non-vacuity: a concrete run, capacity 2, with re-put, eviction and re-insertion ---- *)
Definition c18_demo : list (op N) :=
  [Put 1 10; Put 2 20; Put 1 11;      (* re-put of present key 1: stays oldest *)
   Put 3 30;                          (* full: evicts 1 (the oldest), not 2 *)
   Get 1; Get 2; Get 3; Len;
   Put 1 12;                          (* evicted key re-enters as newest, evicts 2 *)
   Get 2; Get 3; Get 1; Len;
   Clear; Len; Get 3; Put 3 31; Get 3]%N.

Definition c18_demo_outs : list (out N) :=
  [OUnit; OUnit; OUnit; OUnit;
   OGet None; OGet (Some 20); OGet (Some 30); OLen 2;
   OUnit;
   OGet None; OGet (Some 30); OGet (Some 12); OLen 2;
   OUnit; OLen 0; OGet None; OUnit; OGet (Some 31)]%N.

Example C18_demo_spec :
  FifoMap.run N 2 [] c18_demo = ([(3, 31)]%N, c18_demo_outs).
Proof. vm_compute. reflexivity. Qed.

Example C18_demo_model :
  option_map (fun p => (HashTable.q N (fst p), snd p)) (HashTable.run N (HashTable.new N 2) c18_demo)
  = Some ([3]%N, c18_demo_outs).
Proof. vm_compute. reflexivity. Qed.

(* intermediate state just before the Clear: key order is [3; 1] (oldest first) *)
Example C18_demo_prefix :
  option_map (fun p => HashTable.q N (fst p)) (HashTable.run N (HashTable.new N 2) (firstn 13 c18_demo))
  = Some [3; 1]%N
  /\ map fst (fst (FifoMap.run N 2 [] (firstn 13 c18_demo))) = [3; 1]%N.
Proof. vm_compute. split; reflexivity. Qed.

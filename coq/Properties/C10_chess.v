(* Property C10, companion file: the two "facts of chess" that Properties/C10.v carries as hypotheses on the key sequence
   (Spec/Draws.v: parity_ok_keys, no_dist2_keys) are proved for real games, and the repetition statements are re-stated
   about POSITIONS.  Proofs: Proofs/RepetitionChess.v.  Only pinned statements here.

   Reading guide
   * Rules level (Spec/Rules.v, mailbox positions).  rep_key_pos p = (cells, side, four rights, e.p. FILE).  Facts (a)
     and (b) hold for EVERY position p and every PSEUDO-legal move (a fortiori every legal move of a legal position):
     no legality premise is needed.
   * Model level.  rep_key_of b = (12 bitboards, side, four rights, e.p. file) = ZobristProofs.key_of b, the tuple the
     Zobrist key is a function of (C06_function_of_key).  A game = RepetitionProofs.legal_line T b0 ms bs (b0 the first
     position, bs = b1..bn with b(i+1) = make bi mi, mi generated at bi, mover's king not left in check) from a board
     satisfying MakeProofs.pos_inv T b0 (wf, rights_wf, ep_ok, is_valid; on wf boards = Rules.legal_pos (abs b0), C02).
   * no_collision T boards: among the positions of THIS game equal keys mean equal rep_keys -- the inherent assumption of
     any hash-based repetition test (the converse always holds: C10_rep_key_same_hash).
   * threefold_positions ks hm: ks = rep_keys of the game, oldest first, last = current; hm = half-move clock of the
     current position = plies since the last capture or pawn move (C10_clock_since_irreversible); it says that the
     current position also stood k1 and k2 plies back with 0 < k1 < k2 <= hm (C10_threefold_positions_iff).
   Side conditions on the tables: tables_attacks_ok (C04; Gen: SweepAll.tables_ok) and tables_movegen_ok (C01; Gen:
   MoveGenProofs.gen_tables_movegen_ok); the *_gen statements are the instances for the regenerated tables. *)
Require Import Ink.Lib.Str.
Require Import NArith ZArith List Bool.
Import ListNotations.
Require Import Ink.Model.Tables Ink.Model.Board Ink.Model.History Ink.Model.Search Ink.Spec.Rules Ink.Spec.Draws.
Require Import Ink.Proofs.Abs Ink.Proofs.AttackProofs.
Require Ink.Proofs.MoveGenProofs Ink.Proofs.MakeProofs Ink.Proofs.ZobristProofs Ink.Proofs.RepetitionProofs.
Require Import Ink.Proofs.RepetitionChess.
Require Ink.Gen.Tables.
Open Scope N_scope.

(* ==================================================================================================================
   1. Rules level
   ================================================================================================================== *)
Theorem C10_rep_key_pos_def : forall p,
  rep_key_pos p = (cells p, to_move p, (wk p, wq p, bk p, bq p), option_map fileZ (epsq p)).
Proof. exact (fun p => eq_refl). Qed.
Print Assumptions C10_rep_key_pos_def.

(* (a) a move hands the move to the other side: the successor is a different position-for-repetition *)
Theorem C10_rules_side_changes : forall p u, In u (legal_moves p) ->
  to_move (Rules.apply p u) = opp (to_move p) /\ rep_key_pos (Rules.apply p u) <> rep_key_pos p.
Proof. exact (fun p u H => conj (apply_to_move p u (legal_pseudo p u H)) (one_ply_rep_key_legal p u H)). Qed.
Print Assumptions C10_rules_side_changes.

(* (b) two plies later the PLACEMENT differs from the one before, whatever the two moves (ordinary, capture,
       promotion, e.p., castling) *)
Theorem C10_rules_two_ply : forall p u1 u2,
  In u1 (legal_moves p) -> In u2 (legal_moves (Rules.apply p u1)) ->
  cells (Rules.apply (Rules.apply p u1) u2) <> cells p /\
  rep_key_pos (Rules.apply (Rules.apply p u1) u2) <> rep_key_pos p.
Proof.
  exact (fun p u1 u2 H1 H2 => conj (two_ply_cells p u1 u2 (legal_pseudo p u1 H1) (legal_pseudo _ u2 H2))
                                   (two_ply_rep_key_legal p u1 u2 H1 H2)).
Qed.
Print Assumptions C10_rules_two_ply.

(* the same for pseudo-legal moves of ANY position *)
Theorem C10_rules_side_changes_pseudo : forall p u, In u (pseudo_moves p) ->
  to_move (Rules.apply p u) = opp (to_move p) /\ rep_key_pos (Rules.apply p u) <> rep_key_pos p.
Proof. exact (fun p u H => conj (apply_to_move p u H) (one_ply_rep_key p u H)). Qed.
Print Assumptions C10_rules_side_changes_pseudo.

Theorem C10_rules_two_ply_pseudo : forall p u1 u2,
  In u1 (pseudo_moves p) -> In u2 (pseudo_moves (Rules.apply p u1)) ->
  cells (Rules.apply (Rules.apply p u1) u2) <> cells p /\
  rep_key_pos (Rules.apply (Rules.apply p u1) u2) <> rep_key_pos p.
Proof. exact (fun p u1 u2 H1 H2 => conj (two_ply_cells p u1 u2 H1 H2) (two_ply_rep_key p u1 u2 H1 H2)). Qed.
Print Assumptions C10_rules_two_ply_pseudo.

(* why (b) holds: the square the mover left is empty afterwards, and a move only writes pieces of the side that
   makes it (or empties squares) *)
Theorem C10_rules_origin_vacated : forall p u, In u (pseudo_moves p) -> get (Rules.apply p u) (from u) = None.
Proof. exact apply_from_empty. Qed.
Print Assumptions C10_rules_origin_vacated.

Theorem C10_rules_move_writes_own_colour : forall p u s k, get p (from u) = Some (to_move p, k) ->
  get (Rules.apply p u) s = get p s \/ get (Rules.apply p u) s = None \/
  exists k', get (Rules.apply p u) s = Some (to_move p, k').
Proof. exact apply_get_cases. Qed.
Print Assumptions C10_rules_move_writes_own_colour.

(* ==================================================================================================================
   2. Model level: positions, games
   ================================================================================================================== *)
Theorem C10_rep_key_of_def : forall b,
  rep_key_of b = (bbs b, turn b, Ink.Proofs.ZobristProofs.rights b, Ink.Proofs.ZobristProofs.ep_key b) /\
  rep_key_of b = Ink.Proofs.ZobristProofs.key_of b.
Proof. exact (fun b => conj eq_refl eq_refl). Qed.
Print Assumptions C10_rep_key_of_def.

(* C06_function_of_key: equal positions-for-repetition have equal keys *)
Theorem C10_rep_key_same_hash : forall T b1 b2, rep_key_of b1 = rep_key_of b2 -> zobrist_hash T b1 = zobrist_hash T b2.
Proof. exact rep_key_same_hash. Qed.
Print Assumptions C10_rep_key_same_hash.

Theorem C10_rep_key_eqb_spec : forall k1 k2, rep_key_eqb k1 k2 = true <-> k1 = k2.
Proof. exact rep_key_eqb_spec. Qed.
Print Assumptions C10_rep_key_eqb_spec.

(* (a) on boards *)
Theorem C10_boards_side_changes : forall b m b', turn b < 2 -> make b m = Some b' ->
  turn b' <> turn b /\ rep_key_of b' <> rep_key_of b.
Proof. exact one_ply_boards. Qed.
Print Assumptions C10_boards_side_changes.

(* (b) on boards: legal position, legal move, any generated reply *)
Theorem C10_boards_two_ply : forall T, tables_attacks_ok T = true -> Ink.Proofs.MoveGenProofs.tables_movegen_ok T = true ->
  forall b m1 b1 m2 b2,
  Ink.Proofs.MakeProofs.pos_inv T b -> In m1 (gen_pseudo T b) -> make b m1 = Some b1 -> is_valid T b1 = true ->
  In m2 (gen_pseudo T b1) -> make b1 m2 = Some b2 ->
  bbs b2 <> bbs b /\ rep_key_of b2 <> rep_key_of b.
Proof. exact two_ply_boards. Qed.
Print Assumptions C10_boards_two_ply.

(* every position of a game satisfies the invariant again (C02_invariant_preserved along the line) *)
Theorem C10_game_positions_legal : forall T, tables_attacks_ok T = true -> Ink.Proofs.MoveGenProofs.tables_movegen_ok T = true ->
  forall b0 ms bs, Ink.Proofs.RepetitionProofs.legal_line T b0 ms bs -> Ink.Proofs.MakeProofs.pos_inv T b0 ->
  forall B, In B (b0 :: bs) -> Ink.Proofs.MakeProofs.pos_inv T B.
Proof. exact line_pos_inv. Qed.
Print Assumptions C10_game_positions_legal.

(* (a) in a game: two positions at odd distance differ (in the side to move) *)
Theorem C10_game_odd_distance : forall T b0 ms bs, Ink.Proofs.RepetitionProofs.legal_line T b0 ms bs -> turn b0 < 2 ->
  forall i j Bi Bj, nth_error (b0 :: bs) i = Some Bi -> nth_error (b0 :: bs) j = Some Bj ->
  (i <= j)%nat -> N.of_nat (j - i) mod 2 = 1 -> turn Bi <> turn Bj /\ rep_key_of Bi <> rep_key_of Bj.
Proof. exact game_odd_distance. Qed.
Print Assumptions C10_game_odd_distance.

(* (b) in a game: positions two plies apart differ (in the placement) *)
Theorem C10_game_two_ply : forall T, tables_attacks_ok T = true -> Ink.Proofs.MoveGenProofs.tables_movegen_ok T = true ->
  forall b0 ms bs, Ink.Proofs.RepetitionProofs.legal_line T b0 ms bs -> Ink.Proofs.MakeProofs.pos_inv T b0 ->
  forall i B B2, nth_error (b0 :: bs) i = Some B -> nth_error (b0 :: bs) (S (S i)) = Some B2 ->
  bbs B2 <> bbs B /\ rep_key_of B2 <> rep_key_of B.
Proof. exact game_two_ply. Qed.
Print Assumptions C10_game_two_ply.

(* ==================================================================================================================
   3. Key sequences: the two hypotheses of C10_window_all_keys / C10_history_threefold / C10_leaf_iff_threefold
   ================================================================================================================== *)
Theorem C10_no_collision_def : forall T boards, no_collision T boards <->
  (forall i j bi bj, nth_error boards i = Some bi -> nth_error boards j = Some bj ->
     zobrist_hash T bi = zobrist_hash T bj -> rep_key_of bi = rep_key_of bj).
Proof. exact (fun T boards => conj (fun H => H) (fun H => H)). Qed.
Print Assumptions C10_no_collision_def.

(* executable check of the hypothesis on a concrete game *)
Theorem C10_no_collisionb_sound : forall T boards, no_collisionb T boards = true -> no_collision T boards.
Proof. exact no_collisionb_sound. Qed.
Print Assumptions C10_no_collisionb_sound.

Theorem C10_parity_ok_chess : forall T b0 ms bs,
  Ink.Proofs.RepetitionProofs.legal_line T b0 ms bs -> turn b0 < 2 -> no_collision T (b0 :: bs) ->
  parity_ok_keys (map (zobrist_hash T) (b0 :: bs)).
Proof. exact parity_ok_chess. Qed.
Print Assumptions C10_parity_ok_chess.

Theorem C10_no_dist2_chess : forall T, tables_attacks_ok T = true -> Ink.Proofs.MoveGenProofs.tables_movegen_ok T = true ->
  forall b0 ms bs, Ink.Proofs.RepetitionProofs.legal_line T b0 ms bs -> Ink.Proofs.MakeProofs.pos_inv T b0 ->
  no_collision T (b0 :: bs) ->
  no_dist2_keys (map (zobrist_hash T) (b0 :: bs)).
Proof. exact no_dist2_chess. Qed.
Print Assumptions C10_no_dist2_chess.

(* ==================================================================================================================
   4. Threefold repetition of positions; the half-move clock
   ================================================================================================================== *)
Theorem C10_threefold_positions_def : forall ks hm,
  threefold_positions ks hm <->
  2 <= match rev ks with [] => 0 | cur :: prevs => countP (rep_key_eqb cur) (takeP hm prevs) end.
Proof. exact (fun ks hm => conj (fun H => H) (fun H => H)). Qed.
Print Assumptions C10_threefold_positions_def.

(* nth_error (rev ks) k = the position k plies before the current one *)
Theorem C10_threefold_positions_iff : forall ks hm, threefold_positions ks hm <->
  exists cur k1 k2, (0 < k1 < k2)%nat /\ N.of_nat k2 <= hm /\
    nth_error (rev ks) 0 = Some cur /\ nth_error (rev ks) k1 = Some cur /\ nth_error (rev ks) k2 = Some cur.
Proof. exact threefold_positions_iff. Qed.
Print Assumptions C10_threefold_positions_iff.

(* threefold on keys (Spec/Draws.v) = threefold on positions *)
Theorem C10_threefold_keys_positions : forall T boards hm, no_collision T boards ->
  (threefold (map (zobrist_hash T) boards) hm <-> threefold_positions (map rep_key_of boards) hm).
Proof. exact threefold_keys_positions. Qed.
Print Assumptions C10_threefold_keys_positions.

(* make's clock: reset exactly on pawn moves and captures of the rules, else +1 *)
Theorem C10_half_reset_spec : forall T, tables_attacks_ok T = true -> Ink.Proofs.MoveGenProofs.tables_movegen_ok T = true ->
  forall b m b', Ink.Proofs.MakeProofs.pos_inv T b -> In m (gen_pseudo T b) -> make b m = Some b' ->
  half_reset m = is_pawn_move (abs b) (uci_of m) || is_capture (abs b) (uci_of m) /\
  half b' = (if half_reset m then 0 else half b + 1).
Proof. exact (fun T OK MK b m b' Hi Hin Hm => conj (half_reset_spec T OK MK b m b' Hi Hin Hm) (make_half b m b' Hm)). Qed.
Print Assumptions C10_half_reset_spec.

Theorem C10_clock_step_def : forall n f, clock_step n f = if f then 0 else n + 1.
Proof. exact (fun n f => eq_refl). Qed.
Print Assumptions C10_clock_step_def.

Theorem C10_irrev_flags_def : forall p u r,
  irrev_flags p [] = [] /\
  irrev_flags p (u :: r) = (is_pawn_move p u || is_capture p u) :: irrev_flags (Rules.apply p u) r.
Proof. exact (fun p u r => conj eq_refl eq_refl). Qed.
Print Assumptions C10_irrev_flags_def.

Theorem C10_game_clock : forall T, tables_attacks_ok T = true -> Ink.Proofs.MoveGenProofs.tables_movegen_ok T = true ->
  forall b0 ms bs, Ink.Proofs.RepetitionProofs.legal_line T b0 ms bs -> Ink.Proofs.MakeProofs.pos_inv T b0 ->
  half (last bs b0) = fold_left clock_step (irrev_flags (abs b0) (map uci_of ms)) (half b0).
Proof. exact game_half. Qed.
Print Assumptions C10_game_clock.

(* hm of the last position = number of plies since the last capture or pawn move of the game; without one: the clock
   of the first position + the length of the game; in any case at most that *)
Theorem C10_clock_since_irreversible : forall T, tables_attacks_ok T = true -> Ink.Proofs.MoveGenProofs.tables_movegen_ok T = true ->
  forall b0 ms bs, Ink.Proofs.RepetitionProofs.legal_line T b0 ms bs -> Ink.Proofs.MakeProofs.pos_inv T b0 ->
  let fl := irrev_flags (abs b0) (map uci_of ms) in
  (forall f1 f2, fl = f1 ++ true :: f2 -> (forall x, In x f2 -> x = false) -> half (last bs b0) = N.of_nat (length f2)) /\
  ((forall x, In x fl -> x = false) -> half (last bs b0) = half b0 + N.of_nat (length ms)) /\
  half (last bs b0) <= half b0 + N.of_nat (length ms).
Proof. exact game_half_since_irreversible. Qed.
Print Assumptions C10_clock_since_irreversible.

(* ==================================================================================================================
   5. The engine's draw test, about positions
   ================================================================================================================== *)
(* the game recorded by the position command at ply clocks base, base+1, ... (C10_game_history_recorded): the count at
   the last position is >= 3 exactly when that POSITION has occurred at least three times among the positions reached
   since the last capture or pawn move.  `hm + 1 <= lenN keys`: the clock does not reach back before the first position
   of the game (automatic when its clock is 0: next theorem) *)
Theorem C10_history_threefold_chess : forall T, tables_attacks_ok T = true -> Ink.Proofs.MoveGenProofs.tables_movegen_ok T = true ->
  forall b0 ms bs h base,
  Ink.Proofs.MakeProofs.pos_inv T b0 -> Ink.Proofs.RepetitionProofs.legal_line T b0 ms bs ->
  let boards := b0 :: bs in
  let keys := map (zobrist_hash T) boards in
  let hm := half (last bs b0) in
  no_collision T boards -> hm + 1 <= lenN keys -> hm < 65536 ->
  (3 <= count_repetitions_u32 (record_from h base keys) (base + lenN keys - 1) hm
   <-> threefold_positions (map rep_key_of boards) hm).
Proof. exact history_threefold_chess. Qed.
Print Assumptions C10_history_threefold_chess.

Theorem C10_history_threefold_chess_clock0 : forall T, tables_attacks_ok T = true -> Ink.Proofs.MoveGenProofs.tables_movegen_ok T = true ->
  forall b0 ms bs h base,
  Ink.Proofs.MakeProofs.pos_inv T b0 -> Ink.Proofs.RepetitionProofs.legal_line T b0 ms bs ->
  half b0 = 0 -> N.of_nat (length ms) < 65536 ->
  let boards := b0 :: bs in
  let keys := map (zobrist_hash T) boards in
  let hm := half (last bs b0) in
  no_collision T boards ->
  (3 <= count_repetitions_u32 (record_from h base keys) (base + lenN keys - 1) hm
   <-> threefold_positions (map rep_key_of boards) hm).
Proof. exact history_threefold_chess_clock0. Qed.
Print Assumptions C10_history_threefold_chess_clock0.

Theorem C10_history_threefold_chess_gen : forall b0 ms bs h base,
  Ink.Proofs.MakeProofs.pos_inv Ink.Gen.Tables.tables b0 ->
  Ink.Proofs.RepetitionProofs.legal_line Ink.Gen.Tables.tables b0 ms bs ->
  let boards := b0 :: bs in
  let keys := map (zobrist_hash Ink.Gen.Tables.tables) boards in
  let hm := half (last bs b0) in
  no_collision Ink.Gen.Tables.tables boards -> hm + 1 <= lenN keys -> hm < 65536 ->
  (3 <= count_repetitions_u32 (record_from h base keys) (base + lenN keys - 1) hm
   <-> threefold_positions (map rep_key_of boards) hm).
Proof. exact history_threefold_chess_gen. Qed.
Print Assumptions C10_history_threefold_chess_gen.

(* the same at a node of the search (C10_leaf_iff_threefold / _gen): the path game ++ line ++ node is a legal line *)
Theorem C10_leaf_iff_threefold_chess : forall T, tables_attacks_ok T = true -> Ink.Proofs.MoveGenProofs.tables_movegen_ok T = true ->
  forall b0 ms bs base prefix ply zh st,
  Ink.Proofs.RepetitionProofs.line_inv T base prefix zh st ->
  Ink.Proofs.MakeProofs.pos_inv T b0 -> Ink.Proofs.RepetitionProofs.legal_line T b0 ms bs ->
  prefix ++ [s_board st] = b0 :: bs ->
  no_collision T (b0 :: bs) ->
  let hm := half (s_board st) mod 65536 in
  hm + 1 <= N.of_nat (length (b0 :: bs)) \/ zh <> 0 ->
  (Ink.Proofs.RepetitionProofs.repetition_flag ply zh st = true
   <-> 0 < ply /\ threefold_positions (map rep_key_of (b0 :: bs)) hm).
Proof. exact leaf_iff_threefold_chess. Qed.
Print Assumptions C10_leaf_iff_threefold_chess.

Theorem C10_leaf_iff_threefold_chess_gen : forall b0 ms bs base prefix ply zh st,
  Ink.Proofs.RepetitionProofs.line_inv Ink.Gen.Tables.tables base prefix zh st ->
  Ink.Proofs.MakeProofs.pos_inv Ink.Gen.Tables.tables b0 ->
  Ink.Proofs.RepetitionProofs.legal_line Ink.Gen.Tables.tables b0 ms bs ->
  prefix ++ [s_board st] = b0 :: bs ->
  no_collision Ink.Gen.Tables.tables (b0 :: bs) ->
  let hm := half (s_board st) mod 65536 in
  hm + 1 <= N.of_nat (length (b0 :: bs)) \/ zh <> 0 ->
  (Ink.Proofs.RepetitionProofs.repetition_flag ply zh st = true
   <-> 0 < ply /\ threefold_positions (map rep_key_of (b0 :: bs)) hm).
Proof. exact leaf_iff_threefold_chess_gen. Qed.
Print Assumptions C10_leaf_iff_threefold_chess_gen.

(* ==================================================================================================================
   6. 1.Nf3 Nf6 2.Ng1 Ng8 3.Nf3 Nf6 4.Ng1 Ng8 from the start position (computed; ex_game = play_picks on the
      (origin, target) squares g1f3 g8f6 f3g1 f6g8 twice): every hypothesis above holds, the start position stands for
      the third time at the end and the engine's counter says so; one move earlier neither.
   ================================================================================================================== *)
Theorem C10_example_knight_shuffle_positions :
  let ms := fst ex_game in let bs := snd ex_game in
  let boards := ex_start :: bs in
  Ink.Proofs.MakeProofs.pos_inv Ink.Gen.Tables.tables ex_start /\
  Ink.Proofs.RepetitionProofs.legal_line Ink.Gen.Tables.tables ex_start ms bs /\
  no_collision Ink.Gen.Tables.tables boards /\
  length ms = 8%nat /\ half ex_start = 0 /\ half (last bs ex_start) = 8 /\
  irrev_flags (abs ex_start) (map uci_of ms) = [false; false; false; false; false; false; false; false] /\
  earlier_equal_positions (map rep_key_of boards) 8 = 2 /\ threefold_positions (map rep_key_of boards) 8 /\
  half (last (removelast bs) ex_start) = 7 /\
  earlier_equal_positions (map rep_key_of (removelast boards)) 7 = 1 /\
  ~ threefold_positions (map rep_key_of (removelast boards)) 7 /\
  3 <= count_repetitions_u32 (record_from hempty 0 (map (zobrist_hash Ink.Gen.Tables.tables) boards))
                             (0 + lenN (map (zobrist_hash Ink.Gen.Tables.tables) boards) - 1) 8 /\
  ~ 3 <= count_repetitions_u32 (record_from hempty 0 (map (zobrist_hash Ink.Gen.Tables.tables) (removelast boards)))
                               (0 + lenN (map (zobrist_hash Ink.Gen.Tables.tables) (removelast boards)) - 1) 7.
Proof. exact ex_game_facts. Qed.
Print Assumptions C10_example_knight_shuffle_positions.

Example C10_example_game_is_the_knight_shuffle :
  map (fun m => (src m, dst m, piece_moved m)) (fst ex_game)
  = [(62, 45, KNIGHT); (6, 21, KNIGHT); (45, 62, KNIGHT); (21, 6, KNIGHT);
     (62, 45, KNIGHT); (6, 21, KNIGHT); (45, 62, KNIGHT); (21, 6, KNIGHT)] /\
  length (snd ex_game) = 8%nat /\
  ex_start = Ink.Proofs.MakeUnmake.board_of_text Ink.Model.Fen.STARTPOS /\
  map rep_key_of (snd ex_game) <> [] /\
  nth_error (map rep_key_of (ex_start :: snd ex_game)) 8 = Some (rep_key_of ex_start).
Proof. repeat split; try (vm_compute; reflexivity). vm_compute. discriminate. Qed.

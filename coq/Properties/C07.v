(* C07 — "Every go is answered by exactly one bestmove, and it is a legal move".
   Model: Model/Search.v.  All statements hold for every oracle (any stop/quit timing, any clock, any abort point). *)
Require Import Ink.Lib.Str.
Require Import NArith ZArith List Bool.
Require Import Ink.Model.Tables Ink.Model.Board Ink.Model.UciTx Ink.Model.Search Ink.Proofs.SearchProofs.
Import ListNotations.
Open Scope N_scope.

(* exactly one `bestmove` per go, for every go parameter combination and every oracle; no hypothesis *)
Theorem C07_one_bestmove : forall (T : Tables.t) orc g st,
  count_bestmove (s_out (go T orc g st)) = S (count_bestmove (s_out st)).
Proof. exact C07_one_bestmove_thm. Qed.
Print Assumptions C07_one_bestmove.

(* the counting lemma: a depth-1 search that starts with a node count of 0 (reset_for_go) on a position with fewer
   pseudo-legal moves than the polling period never reaches a poll, so no oracle can raise the stop flag in it
   (product build: poll = 100,000; a chess position has at most a few hundred pseudo-legal moves) *)
Theorem C07_first_iteration_not_interruptible : forall (T : Tables.t) orc alpha beta is_pv zh zph st,
  s_nm_nodes st = 0 -> N.of_nat (length (gen_pseudo T (s_board st))) < poll orc ->
  s_stop (snd (negamax T orc 1 0 alpha beta is_pv zh zph st)) = s_stop st.
Proof. exact C07_first_iteration_not_interruptible_thm. Qed.
Print Assumptions C07_first_iteration_not_interruptible.

(* the announced move is never the null move when it exists: it is a generated move that passes `is_valid`, and one
   of the `searchmoves` when given.  (Uses the transposition-table invariant "every stored draft is smaller than the
   draft of the root call", so the root never answers from the table.) *)
Theorem C07_bestmove_legal : forall (T : Tables.t) good Q, C03_family T good Q ->
  forall orc g st D, (length (fst (go_full T orc g st)) <= D)%nat -> good (D + S Q)%nat (s_board st) ->
  forall u, announced (fst (go_full T orc g st)) = Some u ->
  exists m, u = uci_of_move m /\ In m (gen_pseudo T (s_board st)) /\ is_move_legal T (s_board st) m = true /\
            (g_searchmoves g = [] \/ existsb (umove_eqb (uci_of_move m)) (g_searchmoves g) = true).
Proof. exact C07_bestmove_legal_thm. Qed.
Print Assumptions C07_bestmove_legal.

(* no legal move among the searched moves (mate, stalemate, or searchmoves without a legal move): bestmove 0000 *)
Theorem C07_no_legal_move_null : forall (T : Tables.t) good Q, C03_family T good Q ->
  forall orc g st D, (length (fst (go_full T orc g st)) <= D)%nat -> good (D + S Q)%nat (s_board st) ->
  (forall m, In m (root_moves T g (s_board st)) -> is_move_legal T (s_board st) m = false) ->
  announced (fst (go_full T orc g st)) = None.
Proof. exact C07_no_legal_move_null_thm. Qed.
Print Assumptions C07_no_legal_move_null.

(* The converse direction (a legal root move exists -> the announced move is not null) is C07_bestmove_exists in
   Properties/C07_exists.v (Proofs/ValueBound.v): it needs the value bound  loss_score < value < win_score  on every
   value a child of the root can return, which holds exactly for  full-move number + side to move < 2 * win_score = 2^25
   (sharp: C07_bestmove_exists_refuted_at_2p25, known finding fullmove_ge_2p25), and the fact that iteration 1 cannot
   be interrupted because a position has at most 41218 pseudo-legal moves in the model's counting, below the polling
   period 100000.  C07_answer combines the three statements. *)

(* ================================================================================================================
   GLUE (Proofs/ChessInstance.v, Proofs/Preserve.v): [C03_family] discharged; the two theorems above for the tables
   regenerated from the current /repo, without abstract hypotheses.
     good_chess T n b := wf b /\ rights_wf b /\ ep_free b /\ is_valid T b /\ half b + n < 4096
   (pinned in Properties/C09.v: C09_good_chess_meaning, C09_ep_free_meaning, C09_chess_C03_family).
   RANGE OF HALF-MOVE CLOCKS COVERED: a go of at most D iterations on a board with  half b + D + 130 < 4096.
   ================================================================================================================ *)
Require Ink.Gen.Tables.
Require Import Ink.Proofs.MakeUnmake Ink.Proofs.Preserve Ink.Proofs.ChessInstance.

Theorem C07_good_chess_meaning : forall (T : Tables.t) (n : nat) (b : board),
  good_chess T n b <->
  wf b = true /\ rights_wf b = true /\ ep_free b = true /\ is_valid T b = true /\ half b + N.of_nat n < 4096.
Proof. exact (fun T n b => iff_refl _). Qed.
Print Assumptions C07_good_chess_meaning.

Theorem C07_bestmove_legal_chess : forall orc g st D,
  (length (fst (go_full Ink.Gen.Tables.tables orc g st)) <= D)%nat ->
  good_chess Ink.Gen.Tables.tables (D + 130) (s_board st) ->
  forall u, announced (fst (go_full Ink.Gen.Tables.tables orc g st)) = Some u ->
  exists m, u = uci_of_move m /\ In m (gen_pseudo Ink.Gen.Tables.tables (s_board st)) /\
            is_move_legal Ink.Gen.Tables.tables (s_board st) m = true /\
            (g_searchmoves g = [] \/ existsb (umove_eqb (uci_of_move m)) (g_searchmoves g) = true).
Proof. exact ChessInstance.C07_bestmove_legal_chess. Qed.
Print Assumptions C07_bestmove_legal_chess.

Theorem C07_no_legal_move_null_chess : forall orc g st D,
  (length (fst (go_full Ink.Gen.Tables.tables orc g st)) <= D)%nat ->
  good_chess Ink.Gen.Tables.tables (D + 130) (s_board st) ->
  (forall m, In m (root_moves Ink.Gen.Tables.tables g (s_board st)) ->
             is_move_legal Ink.Gen.Tables.tables (s_board st) m = false) ->
  announced (fst (go_full Ink.Gen.Tables.tables orc g st)) = None.
Proof. exact ChessInstance.C07_no_legal_move_null_chess. Qed.
Print Assumptions C07_no_legal_move_null_chess.

(* C13 (no-side-effect part) - the UCI move-text entry points leave the position untouched unless they play a move.
   Model: Model/Notation.v (find_uci, make_uci, make_all_uci, uci_to_pgn; board/src/board.rs, after the fix
   01edf1e "take the move back when find_uci / uci_to_pgn reject an illegal move").
   Proofs: Proofs/UciMovesProofs.v, on top of C03 (Proofs/MakeUnmake.v).  Only pinned statements here.

   good b := wf b = true /\ rights_wf b = true /\ half b < 4096      (the hypotheses of C03_unmake_make)
   Every function returns (result, board left behind); `None` for the board would be a panic arm. *)
Require Import Ink.Lib.Str.
Require Import NArith ZArith List Bool.
Import ListNotations.
Require Import Ink.Lib.Bits Ink.Model.Tables Ink.Model.Board Ink.Model.Fen Ink.Model.Notation.
Require Ink.Proofs.MakeUnmake Ink.Proofs.UciMovesProofs.
Require Ink.Gen.Tables.
Import Ink.Proofs.MakeUnmake Ink.Proofs.UciMovesProofs.
Open Scope N_scope.

(* ---- find_uci: whatever the text (accepted, illegal, unknown, garbage) the board is left as it was ---- *)
Theorem C13_find_uci_board : forall (T : Tables.t), tables_castle_ok T = true ->
  forall (b : board) (s : str), good b -> snd (find_uci T b s) = Some b.
Proof. exact find_uci_board. Qed.
Print Assumptions C13_find_uci_board.

(* ---- idempotence: a second call sees the same board and gives the same answer ---- *)
Theorem C13_find_uci_idempotent : forall (T : Tables.t), tables_castle_ok T = true ->
  forall (b : board) (s : str), good b ->
  exists r, find_uci T b s = (r, Some b) /\
            forall b', snd (find_uci T b s) = Some b' -> find_uci T b' s = (r, Some b).
Proof. exact find_uci_idempotent. Qed.
Print Assumptions C13_find_uci_idempotent.

(* ---- find_uci: what an accepted text means ---- *)
Theorem C13_find_uci_cases : forall (T : Tables.t), tables_castle_ok T = true ->
  forall (b : board) (s : str), good b ->
  (exists e, find_uci T b s = (inl e, Some b)) \/
  (exists m b1, find_uci T b s = (inr m, Some b) /\ In m (gen_pseudo T b) /\ make b m = Some b1 /\ is_valid T b1 = true).
Proof. exact find_uci_cases. Qed.
Print Assumptions C13_find_uci_cases.

(* ---- make_uci: an error leaves the board as it was; success plays exactly one legal generated move ---- *)
Theorem C13_make_uci_error_board : forall (T : Tables.t), tables_castle_ok T = true ->
  forall (b : board) (s : str) (e : uci_err), good b ->
  fst (make_uci T b s) = inl e -> snd (make_uci T b s) = Some b.
Proof. exact make_uci_error_board. Qed.
Print Assumptions C13_make_uci_error_board.

Theorem C13_make_uci_success : forall (T : Tables.t), tables_castle_ok T = true ->
  forall (b : board) (s : str), good b -> fst (make_uci T b s) = inr tt ->
  exists m b1, In m (gen_pseudo T b) /\ make b m = Some b1 /\ is_valid T b1 = true /\ snd (make_uci T b s) = Some b1.
Proof. exact make_uci_success. Qed.
Print Assumptions C13_make_uci_success.

(* ---- make_all_uci: all or nothing ----
   (a) under the checkable condition that every board the call visits is good *)
Theorem C13_make_all_uci_all_or_nothing_checked : forall (T : Tables.t), tables_castle_ok T = true ->
  forall (b : board) (ss : list str) (e : uci_err), visited_good T b ss ->
  fst (make_all_uci T b ss) = inl e -> snd (make_all_uci T b ss) = Some b.
Proof. exact make_all_uci_all_or_nothing_checked. Qed.
Print Assumptions C13_make_all_uci_all_or_nothing_checked.

Theorem C13_visited_goodb_spec : forall (T : Tables.t) (ss : list str) (b : board),
  visited_goodb T b ss = true -> visited_good T b ss.
Proof. exact visited_goodb_spec. Qed.
Print Assumptions C13_visited_goodb_spec.

(* (b) for every good board, GIVEN that legal moves preserve `good` (explicit hypothesis, not proved) *)
Theorem C13_make_all_uci_all_or_nothing : forall (T : Tables.t), tables_castle_ok T = true ->
  (forall b m b1, good b -> In m (gen_pseudo T b) -> make b m = Some b1 -> is_valid T b1 = true -> good b1) ->
  forall (b : board) (ss : list str) (e : uci_err), good b ->
  fst (make_all_uci T b ss) = inl e -> snd (make_all_uci T b ss) = Some b.
Proof. exact make_all_uci_all_or_nothing. Qed.
Print Assumptions C13_make_all_uci_all_or_nothing.

(* ---- uci_to_pgn never changes the board ---- *)
Theorem C13_uci_to_pgn_board : forall (T : Tables.t), tables_castle_ok T = true ->
  forall (b : board) (s : str), good b -> snd (uci_to_pgn T b s) = Some b.
Proof. exact uci_to_pgn_board. Qed.
Print Assumptions C13_uci_to_pgn_board.

Theorem C13_uci_to_pgn_idempotent : forall (T : Tables.t), tables_castle_ok T = true ->
  forall (b : board) (s : str), good b ->
  forall b', snd (uci_to_pgn T b s) = Some b' -> uci_to_pgn T b' s = uci_to_pgn T b s.
Proof. exact uci_to_pgn_idempotent. Qed.
Print Assumptions C13_uci_to_pgn_idempotent.

(* ================= the hypotheses are satisfiable ================= *)
Definition startpos_board : board := board_of_text STARTPOS.
(* the position of defect D8: d1e2 is pseudo-legal but leaves the king in check *)
Definition pinned_board : board := board_of_text (lit "4k3/8/8/8/8/8/8/r2BK3 w - - 0 1").

Example C13_good_startpos : good startpos_board.
Proof. apply goodb_spec. vm_compute. reflexivity. Qed.

Example C13_good_pinned : good pinned_board.
Proof. apply goodb_spec. vm_compute. reflexivity. Qed.

(* rejected as illegal, board unchanged (computed; agrees with C13_find_uci_board) *)
Example C13_pinned_rejected :
  find_uci Ink.Gen.Tables.tables pinned_board (lit "d1e2") = (inl MoveIsNotValid, Some pinned_board).
Proof. vm_compute. reflexivity. Qed.

(* three good moves then an illegal one: the whole call is undone *)
Example C13_visited_good_example :
  visited_good Ink.Gen.Tables.tables startpos_board [lit "e2e4"; lit "e7e5"; lit "g1f3"; lit "e8e6"].
Proof. apply visited_goodb_spec. vm_compute. reflexivity. Qed.

Example C13_all_or_nothing_example :
  make_all_uci Ink.Gen.Tables.tables startpos_board [lit "e2e4"; lit "e7e5"; lit "g1f3"; lit "e8e6"]
  = (inl MoveDoesNotExist, Some startpos_board).
Proof. vm_compute. reflexivity. Qed.

(* ================================================================================================================
   GLUE (Proofs/ChessInstance.v, Proofs/Preserve.v): make_all_uci is all-or-nothing WITHOUT the hypothesis "legal moves
   preserve good" of C13_make_all_uci_all_or_nothing.  (As stated there, for good = wf /\ rights_wf /\ half < 4096, that
   hypothesis is false: from a board with the side not to move in check a pseudo-legal move captures the king, and at
   clock 4095 a quiet move leaves the range.)  The invariant that IS preserved:
     good_chess T n b := wf b /\ rights_wf b /\ ep_free b /\ is_valid T b /\ half b + n < 4096
   with n = the number of move texts, i.e. the clock stays below 4096 along the whole list.
   ================================================================================================================ *)
Require Import Ink.Proofs.AttackProofs Ink.Proofs.LayoutProofs Ink.Proofs.Preserve Ink.Proofs.ChessInstance.

Theorem C13_good_chess_meaning : forall (T : Tables.t) (n : nat) (b : board),
  good_chess T n b <->
  wf b = true /\ rights_wf b = true /\ ep_free b = true /\ is_valid T b = true /\ half b + N.of_nat n < 4096.
Proof. exact (fun T n b => iff_refl _). Qed.
Print Assumptions C13_good_chess_meaning.

Theorem C13_tables_chess_ok_meaning : forall T : Tables.t,
  tables_chess_ok T =
  tables_castle_ok T && tables_attacks_ok T && tables_bounded T && tables_geom_ok T && tables_rank18_ok T.
Proof. exact (fun T => eq_refl). Qed.
Print Assumptions C13_tables_chess_ok_meaning.

(* the preservation fact that was the hypothesis, in the form that is true *)
Theorem C13_legal_move_preserves_good_chess : forall (T : Tables.t), tables_chess_ok T = true ->
  forall (n : nat) (b : board) (m : move) (b1 : board),
  good_chess T (S n) b -> In m (gen_pseudo T b) -> make b m = Some b1 -> is_valid T b1 = true -> good_chess T n b1.
Proof. exact good_chess_step. Qed.
Print Assumptions C13_legal_move_preserves_good_chess.

Theorem C13_make_all_uci_all_or_nothing_chess : forall (T : Tables.t), tables_chess_ok T = true ->
  forall (b : board) (ss : list str) (e : uci_err), good_chess T (length ss) b ->
  fst (make_all_uci T b ss) = inl e -> snd (make_all_uci T b ss) = Some b.
Proof. exact make_all_uci_all_or_nothing_chess. Qed.
Print Assumptions C13_make_all_uci_all_or_nothing_chess.

(* no panic arm is reached *)
Theorem C13_make_all_uci_total_chess : forall (T : Tables.t), tables_chess_ok T = true ->
  forall (b : board) (ss : list str), good_chess T (length ss) b -> exists b', snd (make_all_uci T b ss) = Some b'.
Proof. exact make_all_uci_total_chess. Qed.
Print Assumptions C13_make_all_uci_total_chess.

(* for the tables of the current tree the table condition is gone *)
Theorem C13_gen_tables_chess_ok : tables_chess_ok Ink.Gen.Tables.tables = true.
Proof. exact gen_tables_chess_ok. Qed.
Print Assumptions C13_gen_tables_chess_ok.

Theorem C13_make_all_uci_all_or_nothing_tables : forall (b : board) (ss : list str) (e : uci_err),
  good_chess Ink.Gen.Tables.tables (length ss) b ->
  fst (make_all_uci Ink.Gen.Tables.tables b ss) = inl e -> snd (make_all_uci Ink.Gen.Tables.tables b ss) = Some b.
Proof. exact make_all_uci_all_or_nothing_gen. Qed.
Print Assumptions C13_make_all_uci_all_or_nothing_tables.

Example C13_good_chess_startpos : good_chess Ink.Gen.Tables.tables 3965 startpos_board.
Proof. exact good_chess_startpos. Qed.

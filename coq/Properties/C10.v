(* Property C10 (repetition-history core): draw by threefold repetition in search.
   Model: Ink.Model.History (zobrist_history.rs), spec: Ink.Spec.Draws, proofs: Ink.Proofs.HistoryProofs. *)
Require Import NArith List.
Import ListNotations.
Require Import Ink.Spec.Draws Ink.Model.History Ink.Proofs.HistoryProofs.
Open Scope N_scope.

(* array semantics of `set` followed by reads *)
Theorem C10_hget_hset : forall h i v h' j,
  hset h i v = Some h' -> hget h' j = if j =? i then v else hget h j.
Proof. exact hget_hset. Qed.
Print Assumptions C10_hget_hset.

Theorem C10_hset_panics_iff : forall h i v, hset h i v = None <-> 5000 <= i.
Proof. exact hset_panics_iff. Qed.
Print Assumptions C10_hset_panics_iff.

(* the loop returns min 3 (1 + number of equal entries in the window), and 0 below index 4 *)
Theorem C10_count_exact : forall h i hm, i < 5000 -> hm < 65536 ->
  (4 <= i -> count_repetitions h i hm = Some (N.min 3 (1 + occurrences (hget h) i hm))) /\
  (i < 4 -> count_repetitions h i hm = Some 0).
Proof. exact count_exact_both. Qed.
Print Assumptions C10_count_exact.

(* `count_repetitions(..) >= 3` iff at least two entries of the window equal the entry at the start index *)
Theorem C10_count_ge3_iff : forall h i hm c, i < 5000 ->
  count_repetitions h i hm = Some c -> (3 <= c <-> 2 <= occurrences (hget h) i hm).
Proof. exact count_ge3_iff. Qed.
Print Assumptions C10_count_ge3_iff.

(* the window, independently of its definition as a list *)
Theorem C10_window_In : forall i hm j,
  In j (window i hm) <-> (j mod 2 = i mod 2 /\ j + 4 <= i /\ i - hm <= j).
Proof. exact window_In. Qed.
Print Assumptions C10_window_In.

Theorem C10_no_panic : forall h i hm, i < 5000 -> count_repetitions h i hm <> None.
Proof. exact count_no_panic. Qed.
Print Assumptions C10_no_panic.

(* extra fuel never changes the loop result, and (C10_no_panic) the supplied fuel is never exhausted *)
Theorem C10_fuel_irrelevant : forall h z mn fuel cur reps r,
  count_loop fuel h z mn cur reps = Some r -> forall k, count_loop (fuel + k) h z mn cur reps = Some r.
Proof. exact count_loop_fuel. Qed.
Print Assumptions C10_fuel_irrelevant.

(* D16 (known defect): a ply clock of 5000 or more is an out-of-bounds array access *)
Theorem C10_panic_iff : forall h i hm, count_repetitions h i hm = None <-> 5000 <= i.
Proof. exact count_panic_iff. Qed.
Print Assumptions C10_panic_iff.

Theorem C10_panics_at_5000 : exists h i hm, i < 65536 /\ hm < 65536 /\ count_repetitions h i hm = None.
Proof. exact panics_at_5000. Qed.
Print Assumptions C10_panics_at_5000.

Theorem C10_total_on_u16_refuted :
  ~ (forall h i hm, i < 65536 -> hm < 65536 -> count_repetitions h i hm <> None).
Proof. exact total_refuted. Qed.
Print Assumptions C10_total_on_u16_refuted.

(* the caller's `halfmove_clock as u16` *)
Theorem C10_u16_cast : forall h i hm, count_repetitions_u32 h i (65536 + hm) = count_repetitions_u32 h i hm.
Proof. exact u16_cast. Qed.
Print Assumptions C10_u16_cast.

(* search_negamax: set, then the draw test *)
Theorem C10_visit : forall h p key hm, p < 5000 ->
  visit h p key hm =
  Some ((p, key) :: h, (4 <=? p) && (2 <=? occurrences (hget ((p, key) :: h)) p (hm mod 65536)))%bool.
Proof. exact visit_spec. Qed.
Print Assumptions C10_visit.

(* spec level: under the two chess facts, the code's window sees every earlier equal position within hm plies *)
Theorem C10_window_all : forall k i hm, parity_ok k i hm -> no_dist2 k i hm ->
  occurrences k i hm = all_occurrences k i hm.
Proof. exact window_all. Qed.
Print Assumptions C10_window_all.

Theorem C10_window_all_keys : forall k i keys hm,
  keys <> [] -> holds_game k i keys -> hm + 1 <= lenN keys ->
  parity_ok_keys keys -> no_dist2_keys keys ->
  occurrences k i hm = earlier_equal keys hm.
Proof. exact window_all_keys. Qed.
Print Assumptions C10_window_all_keys.

(* game recorded by the position command at ply clocks base, base+1, ...: the draw test at the current
   position fires exactly when that position has occurred three times since the last irreversible move *)
Theorem C10_history_threefold : forall keys h base h' hm c,
  keys <> [] -> record_from h base keys = Some h' -> hm + 1 <= lenN keys ->
  parity_ok_keys keys -> no_dist2_keys keys ->
  count_repetitions_u32 h' (base + lenN keys - 1) hm = Some c ->
  (3 <= c <-> threefold keys hm).
Proof. exact history_threefold. Qed.
Print Assumptions C10_history_threefold.

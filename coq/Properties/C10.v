(* Property C10: draw rules in search -- threefold repetition (repetition-history core) and the fifty-move rule.
   Model: Ink.Model.History (zobrist_history.rs after fix aca2b0d, Heuristic::evaluate), spec: Ink.Spec.Draws,
   proofs: Ink.Proofs.HistoryProofs.  All statements hold for EVERY index (in particular every u16 index):
   nothing panics any more (historic defect D16, see HistoryProofs.historic_D16). *)
Require Import NArith List.
Import ListNotations.
Require Import Ink.Spec.Draws Ink.Model.History Ink.Proofs.HistoryProofs.
Require Ink.Model.Tables Ink.Gen.Tables.
Open Scope N_scope.

(* array semantics of `set` followed by reads, at any index; unwritten entries read as 0 *)
Theorem C10_hget_hset : forall h i v j, hget (hset h i v) j = if j =? i then v else hget h j.
Proof. exact hget_hset. Qed.
Print Assumptions C10_hget_hset.

Theorem C10_hget_hempty : forall j, hget hempty j = 0.
Proof. exact hget_hempty. Qed.
Print Assumptions C10_hget_hempty.

(* totality: the loop never runs out of the model's fuel, the option-free count_repetitions IS its result *)
Theorem C10_no_panic : forall h i hm, count_repetitions_fuel h i hm <> None.
Proof. exact count_no_panic. Qed.
Print Assumptions C10_no_panic.

Theorem C10_fuel_suffices : forall h i hm, count_repetitions_fuel h i hm = Some (count_repetitions h i hm).
Proof. exact count_repetitions_fuel_some. Qed.
Print Assumptions C10_fuel_suffices.

Theorem C10_fuel_irrelevant : forall h z mn fuel cur reps r,
  count_loop fuel h z mn cur reps = Some r -> forall k, count_loop (fuel + k) h z mn cur reps = Some r.
Proof. exact count_loop_fuel. Qed.
Print Assumptions C10_fuel_irrelevant.

(* the loop returns min 3 (1 + number of equal entries in the window), and 0 below index 4 *)
Theorem C10_count_exact : forall h i hm,
  count_repetitions h i hm = if i <? 4 then 0 else N.min 3 (1 + occurrences (hget h) i hm).
Proof. exact count_total. Qed.
Print Assumptions C10_count_exact.

(* `count_repetitions(..) >= 3` iff at least two entries of the window equal the entry at the start index *)
Theorem C10_count_ge3_iff : forall h i hm,
  3 <= count_repetitions h i hm <-> 2 <= occurrences (hget h) i hm.
Proof. exact count_ge3_iff. Qed.
Print Assumptions C10_count_ge3_iff.

(* the window, independently of its definition as a list *)
Theorem C10_window_In : forall i hm j,
  In j (window i hm) <-> (j mod 2 = i mod 2 /\ j + 4 <= i /\ i - hm <= j).
Proof. exact window_In. Qed.
Print Assumptions C10_window_In.

(* the caller's `halfmove_clock as u16` *)
Theorem C10_u16_cast : forall h i hm, count_repetitions_u32 h i (65536 + hm) = count_repetitions_u32 h i hm.
Proof. exact u16_cast. Qed.
Print Assumptions C10_u16_cast.

(* search_negamax: set, then the draw test, which is skipped at the root *)
Theorem C10_visit : forall h d p key hm,
  visit h d p key hm =
  ((p, key) :: h, (0 <? d) && (2 <=? occurrences (hget ((p, key) :: h)) p (hm mod 65536)))%bool.
Proof. exact visit_spec. Qed.
Print Assumptions C10_visit.

Theorem C10_visit_root : forall h p key hm, snd (visit h 0 p key hm) = false.
Proof. exact visit_root. Qed.
Print Assumptions C10_visit_root.

(* spec level: under the two chess facts, the code's window sees every earlier equal position within hm plies *)
Theorem C10_window_all : forall k i hm, parity_ok k i hm -> no_dist2 k i hm ->
  occurrences k i hm = all_occurrences k i hm.
Proof. exact window_all. Qed.
Print Assumptions C10_window_all.

Theorem C10_window_all_keys : forall k i keys hm,
  keys <> [] -> holds_game k i keys -> hm + 1 <= lenN keys ->
  parity_ok_keys keys -> no_dist2_keys keys ->
  occurrences k i hm = earlier_equal keys hm.
Proof. exact window_all_keys. Qed.
Print Assumptions C10_window_all_keys.

(* game recorded by the position command at ply clocks base, base+1, ...: the draw test at the current
   position fires exactly when that position has occurred three times since the last irreversible move *)
Theorem C10_history_threefold : forall keys h base hm,
  keys <> [] -> hm + 1 <= lenN keys -> hm < 65536 ->
  parity_ok_keys keys -> no_dist2_keys keys ->
  (3 <= count_repetitions_u32 (record_from h base keys) (base + lenN keys - 1) hm <-> threefold keys hm).
Proof. exact history_threefold. Qed.
Print Assumptions C10_history_threefold.

(* fifty-move rule: a non-terminal position is valued as a fifty-move draw only once 100 plies have passed *)
Theorem C10_fifty : forall half, fifty_branch 100 half true = true -> 100 <= half.
Proof. exact fifty_100. Qed.
Print Assumptions C10_fifty.

Theorem C10_fifty_iff : forall half, fifty_branch 100 half true = true <-> 100 <= half.
Proof. exact fifty_100_iff. Qed.
Print Assumptions C10_fifty_iff.

Theorem C10_fifty_never_early : forall half lm, half < 100 -> fifty_branch 100 half lm = false.
Proof. exact fifty_never_early. Qed.
Print Assumptions C10_fifty_never_early.

(* regenerated obligation: the code's constant MAX_HALF_MOVES is 100 in the current tree *)
Theorem C10_max_half_gen : Ink.Model.Tables.max_half_moves Ink.Gen.Tables.tables = 100.
Proof. reflexivity. Qed.
Print Assumptions C10_max_half_gen.

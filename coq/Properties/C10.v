(* Property C10: draw rules in search -- threefold repetition (repetition-history core) and the fifty-move rule.
   Model: Ink.Model.History (zobrist_history.rs after fix aca2b0d, Heuristic::evaluate), spec: Ink.Spec.Draws,
   proofs: Ink.Proofs.HistoryProofs.  All statements hold for EVERY index (in particular every u16 index):
   nothing panics any more (historic defect D16, see HistoryProofs.historic_D16). *)
Require Import NArith List.
Import ListNotations.
Require Import Ink.Spec.Draws Ink.Model.History Ink.Proofs.HistoryProofs.
Require Ink.Model.Tables Ink.Gen.Tables.
Open Scope N_scope.

(* array semantics of `set` followed by reads, at any index; unwritten entries read as 0 *)
Theorem C10_hget_hset : forall h i v j, hget (hset h i v) j = if j =? i then v else hget h j.
Proof. exact hget_hset. Qed.
Print Assumptions C10_hget_hset.

Theorem C10_hget_hempty : forall j, hget hempty j = 0.
Proof. exact hget_hempty. Qed.
Print Assumptions C10_hget_hempty.

(* totality: the loop never runs out of the model's fuel, the option-free count_repetitions IS its result *)
Theorem C10_no_panic : forall h i hm, count_repetitions_fuel h i hm <> None.
Proof. exact count_no_panic. Qed.
Print Assumptions C10_no_panic.

Theorem C10_fuel_suffices : forall h i hm, count_repetitions_fuel h i hm = Some (count_repetitions h i hm).
Proof. exact count_repetitions_fuel_some. Qed.
Print Assumptions C10_fuel_suffices.

Theorem C10_fuel_irrelevant : forall h z mn fuel cur reps r,
  count_loop fuel h z mn cur reps = Some r -> forall k, count_loop (fuel + k) h z mn cur reps = Some r.
Proof. exact count_loop_fuel. Qed.
Print Assumptions C10_fuel_irrelevant.

(* the loop returns min 3 (1 + number of equal entries in the window), and 0 below index 4 *)
Theorem C10_count_exact : forall h i hm,
  count_repetitions h i hm = if i <? 4 then 0 else N.min 3 (1 + occurrences (hget h) i hm).
Proof. exact count_total. Qed.
Print Assumptions C10_count_exact.

(* `count_repetitions(..) >= 3` iff at least two entries of the window equal the entry at the start index *)
Theorem C10_count_ge3_iff : forall h i hm,
  3 <= count_repetitions h i hm <-> 2 <= occurrences (hget h) i hm.
Proof. exact count_ge3_iff. Qed.
Print Assumptions C10_count_ge3_iff.

(* the window, independently of its definition as a list *)
Theorem C10_window_In : forall i hm j,
  In j (window i hm) <-> (j mod 2 = i mod 2 /\ j + 4 <= i /\ i - hm <= j).
Proof. exact window_In. Qed.
Print Assumptions C10_window_In.

(* the caller's `halfmove_clock as u16` *)
Theorem C10_u16_cast : forall h i hm, count_repetitions_u32 h i (65536 + hm) = count_repetitions_u32 h i hm.
Proof. exact u16_cast. Qed.
Print Assumptions C10_u16_cast.

(* search_negamax: set, then the draw test, which is skipped at the root *)
Theorem C10_visit : forall h d p key hm,
  visit h d p key hm =
  ((p, key) :: h, (0 <? d) && (2 <=? occurrences (hget ((p, key) :: h)) p (hm mod 65536)))%bool.
Proof. exact visit_spec. Qed.
Print Assumptions C10_visit.

Theorem C10_visit_root : forall h p key hm, snd (visit h 0 p key hm) = false.
Proof. exact visit_root. Qed.
Print Assumptions C10_visit_root.

(* spec level: under the two chess facts, the code's window sees every earlier equal position within hm plies *)
Theorem C10_window_all : forall k i hm, parity_ok k i hm -> no_dist2 k i hm ->
  occurrences k i hm = all_occurrences k i hm.
Proof. exact window_all. Qed.
Print Assumptions C10_window_all.

Theorem C10_window_all_keys : forall k i keys hm,
  keys <> [] -> holds_game k i keys -> hm + 1 <= lenN keys ->
  parity_ok_keys keys -> no_dist2_keys keys ->
  occurrences k i hm = earlier_equal keys hm.
Proof. exact window_all_keys. Qed.
Print Assumptions C10_window_all_keys.

(* game recorded by the position command at ply clocks base, base+1, ...: the draw test at the current
   position fires exactly when that position has occurred three times since the last irreversible move *)
Theorem C10_history_threefold : forall keys h base hm,
  keys <> [] -> hm + 1 <= lenN keys -> hm < 65536 ->
  parity_ok_keys keys -> no_dist2_keys keys ->
  (3 <= count_repetitions_u32 (record_from h base keys) (base + lenN keys - 1) hm <-> threefold keys hm).
Proof. exact history_threefold. Qed.
Print Assumptions C10_history_threefold.

(* fifty-move rule: a non-terminal position is valued as a fifty-move draw only once 100 plies have passed *)
Theorem C10_fifty : forall half, fifty_branch 100 half true = true -> 100 <= half.
Proof. exact fifty_100. Qed.
Print Assumptions C10_fifty.

Theorem C10_fifty_iff : forall half, fifty_branch 100 half true = true <-> 100 <= half.
Proof. exact fifty_100_iff. Qed.
Print Assumptions C10_fifty_iff.

Theorem C10_fifty_never_early : forall half lm, half < 100 -> fifty_branch 100 half lm = false.
Proof. exact fifty_never_early. Qed.
Print Assumptions C10_fifty_never_early.

(* regenerated obligation: the code's constant MAX_HALF_MOVES is 100 in the current tree *)
Theorem C10_max_half_gen : Ink.Model.Tables.max_half_moves Ink.Gen.Tables.tables = 100.
Proof. reflexivity. Qed.
Print Assumptions C10_max_half_gen.

(* ==================================================================================================================
   SEARCH LEVEL (Proofs/RepetitionProofs.v): the repetition counter above, connected to the model of the search
   (Model/Search.v: search_negamax = node_prelude + leaf_node + interior_node, set_position_from) and to
   Heuristic::evaluate (Model/Heuristic.v).

   Reading guide.
   * `ply_clock_w b` is the u16 index the engine uses for board b (release profile); `clock_ok b` = side to move is a
     colour and the full-move number is >= 1.
   * `line_inv T base prefix zh st` is the invariant at the entry of a node whose state is st:
       zh = zobrist_hash T (s_board st), ply_clock_w (s_board st) = base + |prefix|, the history holds
       zobrist_hash T prefix[i] at index base + i, and is 0 below base          (C10_line_inv_spec).
     prefix = positions of the game (from the FEN on) ++ positions of the current line above the node.
   * `repetition_flag ply zh st` is the model's own draw test on state st (set, then `ply > 0 && count >= 3`);
     `repetition_leaf_taken` = the poll at the top of the node lets it run and the flag is set.
   * `search_family T good Q` = C03_family (make/unmake inverse on the boards met, Proofs/SearchProofs.v) + the side
     conditions of C06_incremental on those boards + full-move number >= 1 + shape of the key tables.
   ================================================================================================================== *)
Require Import Ink.Lib.Str.
Require Import ZArith List Bool.
Require Import Ink.Model.Board Ink.Model.Fen Ink.Model.Notation Ink.Model.Heuristic Ink.Model.UciTx Ink.Model.Search.
Require Import Ink.Proofs.SearchProofs Ink.Proofs.RepetitionProofs.
Require Ink.Proofs.ZobristProofs Ink.Proofs.UciMovesProofs Ink.Proofs.MakeUnmake.
Import ListNotations.
Open Scope N_scope.

(* ---- ply clocks: one move, one index (range: no u16 wrap; a fortiori no u32 wrap) ---- *)
Theorem C10_ply_clock_make : forall b m b', clock_ok b -> make b m = Some b' -> ply_clock_w b < 65535 ->
  clock_ok b' /\ ply_clock_w b' = ply_clock_w b + 1.
Proof. exact ply_clock_make. Qed.
Print Assumptions C10_ply_clock_make.

Theorem C10_ply_clock_make_range : forall b m b', clock_ok b -> make b m = Some b' ->
  2 * (full b - 1) + turn b + 1 < 65536 ->
  ply_clock_w b = 2 * (full b - 1) + turn b /\ ply_clock_w b' = 2 * (full b - 1) + turn b + 1.
Proof. exact ply_clock_make_range. Qed.
Print Assumptions C10_ply_clock_make_range.

(* in general the clock advances modulo 2^16 *)
Theorem C10_ply_clock_make_mod : forall b m b', clock_ok b -> make b m = Some b' ->
  clock_ok b' /\ ply_clock_w b' = (ply_clock_w b + 1) mod 65536.
Proof. exact ply_clock_make_mod. Qed.
Print Assumptions C10_ply_clock_make_mod.

(* Board.ply_clock (debug profile, with its panics) is the same number whenever it does not panic *)
Theorem C10_ply_clock_option : forall b v, ply_clock b = Some v -> v = ply_clock_w b.
Proof. exact ply_clock_option. Qed.
Print Assumptions C10_ply_clock_option.

(* ---- C10_game_history_recorded: `position fen f moves ...` ----
   G n = any family of sets of boards on which C03 holds and such that a legal move leads from G (S n) to G n
   (n = moves still to play; a set closed under legal moves -- Hpres of C13 -- is the constant family; the chess
   instance is Proofs/ChessInstance.v good_chess, see C10_*_chess at the end of this file).
   The history is EXACTLY record_from hempty (ply clock of the FEN position) (hashes of P0, P1, ..., Pn),
   P0 = board_of_fen f, P(i+1) = make Pi mi, and the ply clocks are consecutive. *)
Theorem C10_game_history_recorded : forall (T : Ink.Model.Tables.t) (G : nat -> board -> Prop),
  Ink.Proofs.MakeUnmake.tables_castle_ok T = true ->
  (forall n x, G n x -> Ink.Proofs.UciMovesProofs.good x) ->
  (forall n x m x', G (S n) x -> In m (gen_pseudo T x) -> make x m = Some x' -> is_valid T x' = true -> G n x') ->
  forall f moves b h played,
  let P0 := board_of_fen f in
  G (length moves) P0 -> 1 <= full P0 -> ply_count P0 + N.of_nat (length moves) < 65536 ->
  position_result T f moves = PosOk b h played ->
  exists bs,
    legal_line T P0 played bs /\ length played = length moves /\ b = last bs P0 /\
    (forall i B, nth_error (P0 :: bs) i = Some B -> ply_clock_w B = ply_clock_w P0 + N.of_nat i) /\
    h = record_from hempty (ply_clock_w P0) (map (zobrist_hash T) (P0 :: bs)).
Proof. exact game_history_recorded. Qed.
Print Assumptions C10_game_history_recorded.

(* without any hypothesis: every position the model passes through is stored at its own ply clock *)
Theorem C10_game_history_general : forall T f moves b h played,
  position_result T f moves = PosOk b h played ->
  exists bs, game_line T (board_of_fen f) moves played bs /\ b = last bs (board_of_fen f) /\
             h = record_boards T hempty (board_of_fen f :: bs).
Proof. exact position_result_general. Qed.
Print Assumptions C10_game_history_general.

Theorem C10_set_position_from_ok : forall T f moves st b h played, position_result T f moves = PosOk b h played ->
  s_board (set_position_from T f moves st) = b /\ s_history (set_position_from T f moves st) = h /\
  s_pmoves (set_position_from T f moves st) = played /\ s_contempt (set_position_from T f moves st) = s_contempt st.
Proof. exact set_position_from_ok. Qed.
Print Assumptions C10_set_position_from_ok.

(* ... and the state the position command leaves behind satisfies the invariant of the search, with the game
   (all positions but the current one) as prefix *)
Theorem C10_position_root_inv : forall (T : Ink.Model.Tables.t) (G : nat -> board -> Prop) f moves b h played st,
  Ink.Proofs.MakeUnmake.tables_castle_ok T = true ->
  (forall n x, G n x -> Ink.Proofs.UciMovesProofs.good x) ->
  (forall n x m x', G (S n) x -> In m (gen_pseudo T x) -> make x m = Some x' -> is_valid T x' = true -> G n x') ->
  let P0 := board_of_fen f in
  G (length moves) P0 -> 1 <= full P0 -> ply_count P0 + N.of_nat (length moves) < 65536 ->
  position_result T f moves = PosOk b h played ->
  exists bs, legal_line T P0 played bs /\ b = last bs P0 /\
    line_inv T (ply_clock_w P0) (removelast (P0 :: bs)) (zobrist_hash T b) (set_position_from T f moves st).
Proof. exact position_root_inv. Qed.
Print Assumptions C10_position_root_inv.

(* ---- C10_line_recorded ---- *)
Theorem C10_line_inv_spec : forall T base prefix zh st, line_inv T base prefix zh st <->
  zh = zobrist_hash T (s_board st) /\ ply_clock_w (s_board st) = base + N.of_nat (length prefix) /\
  (forall i B, nth_error prefix i = Some B -> hget (s_history st) (base + N.of_nat i) = zobrist_hash T B) /\
  (forall j, j < base -> hget (s_history st) j = 0).
Proof. exact line_inv_spec. Qed.
Print Assumptions C10_line_inv_spec.

(* the only write of a node to the history is `set(ply_clock, hash)` in the prelude; the contempt factor is only read *)
Theorem C10_node_writes_own_index : forall T orc ply rd a0 b0 zh st,
  let r := node_prelude T orc ply rd a0 b0 zh st in
  s_contempt (snd r) = s_contempt st /\
  (s_history (snd r) = s_history st \/ s_history (snd r) = hset (s_history st) (ply_clock_w (s_board st)) zh) /\
  (forall alpha beta ttm buffer, fst r = PreGo alpha beta ttm buffer ->
     s_history (snd r) = hset (s_history st) (ply_clock_w (s_board st)) zh).
Proof. exact node_prelude_hist. Qed.
Print Assumptions C10_node_writes_own_index.

(* at the moment the node has stored its hash, the history holds the hashes of the whole path game ++ line ++ node *)
Theorem C10_line_recorded_path : forall T base prefix zh st, line_inv T base prefix zh st ->
  forall i B, nth_error (prefix ++ [s_board st]) i = Some B ->
  hget (hset (s_history st) (ply_clock_w (s_board st)) zh) (base + N.of_nat i) = zobrist_hash T B.
Proof. exact line_inv_after_set. Qed.
Print Assumptions C10_line_recorded_path.

(* The invariant is inductive along the recursion.  [negamax_asserting bad base prefix] is [negamax] with a run-time
   assertion of `line_inv base prefix` at the entry of every node (prefix ++ [board] one ply down) that returns
   [bad st] -- anything -- when it fails.  From a node that satisfies the invariant:
   (a) the asserting search is the search for EVERY bad: no node below is ever entered in a state violating the
       invariant (the hash handed down is the Zobrist hash of the child: C06_incremental is threaded through);
   (b) on return the board and the contempt factor are back, and no entry BELOW the node's own ply clock has
       changed: sibling lines only leave stale entries at or above it. *)
Theorem C10_line_recorded : forall T good Q, search_family T good Q ->
  forall orc d bad base prefix ply a0 b0 ispv zh zph st,
  line_inv T base prefix zh st -> good (d + S Q)%nat (s_board st) ->
  base + N.of_nat (length prefix) + N.of_nat d < 65536 ->
  negamax_asserting T orc bad base prefix d ply a0 b0 ispv zh zph st = negamax T orc d ply a0 b0 ispv zh zph st /\
  s_board (snd (negamax T orc d ply a0 b0 ispv zh zph st)) = s_board st /\
  s_contempt (snd (negamax T orc d ply a0 b0 ispv zh zph st)) = s_contempt st /\
  agree_lt (ply_clock_w (s_board st)) (s_history st) (s_history (snd (negamax T orc d ply a0 b0 ispv zh zph st))).
Proof. exact line_recorded_thm. Qed.
Print Assumptions C10_line_recorded.

(* the definition of the asserting search, so that (a) can be read without opening the proofs file *)
Theorem C10_negamax_asserting_unfold : forall T orc bad base prefix d ply a0 b0 ispv zh zph st,
  negamax_asserting T orc bad base prefix d ply a0 b0 ispv zh zph st =
  if line_invb T base prefix zh st then
    match node_prelude T orc ply (N.of_nat d) a0 b0 zh st with
    | (PreReturn r, st3) => (r, st3)
    | (PreGo alpha beta tt_move buffer, st3) =>
        match d with
        | O => leaf_node T (turn (s_board st)) alpha beta zph buffer st3
        | S d' => interior_node T (negamax_asserting T orc bad base (prefix ++ [s_board st]) d' (ply + 1))
                                (turn (s_board st)) ply (N.of_nat d) a0 ispv zh zph alpha beta tt_move buffer st3
        end
    end
  else bad st.
Proof. exact negamax_asserting_unfold. Qed.
Print Assumptions C10_negamax_asserting_unfold.

Theorem C10_negamax_unfold : forall T orc d ply a0 b0 ispv zh zph st,
  negamax T orc d ply a0 b0 ispv zh zph st =
  match node_prelude T orc ply (N.of_nat d) a0 b0 zh st with
  | (PreReturn r, st3) => (r, st3)
  | (PreGo alpha beta tt_move buffer, st3) =>
      match d with
      | O => leaf_node T (turn (s_board st)) alpha beta zph buffer st3
      | S d' => interior_node T (negamax T orc d' (ply + 1)) (turn (s_board st)) ply (N.of_nat d) a0 ispv zh zph
                              alpha beta tt_move buffer st3
      end
  end.
Proof. exact negamax_unfold. Qed.
Print Assumptions C10_negamax_unfold.

(* stale entries above the start index are never read *)
Theorem C10_count_reads_below : forall h h' i hm, (forall j, j <= i -> hget h j = hget h' j) ->
  count_repetitions h i hm = count_repetitions h' i hm.
Proof. exact count_reads_below. Qed.
Print Assumptions C10_count_reads_below.

Theorem C10_visit_reads_below : forall h h' d p key hm, (forall j, j < p -> hget h j = hget h' j) ->
  snd (visit h d p key hm) = snd (visit h' d p key hm).
Proof. exact visit_reads_below. Qed.
Print Assumptions C10_visit_reads_below.

(* the root of every iteration of iterative deepening starts from the invariant and hands it on *)
Theorem C10_root_iteration_inv : forall T good Q, search_family T good Q ->
  forall orc mt a base prefix,
  line_inv T base prefix (zobrist_hash T (s_board (id_st a))) (id_st a) ->
  good (id_fuel a + S Q)%nat (s_board (id_st a)) ->
  base + N.of_nat (length prefix) + N.of_nat (id_fuel a) < 65536 ->
  (forall bad, negamax_asserting T orc bad base prefix (id_fuel a) 0 (loss_score T) (Ink.Model.Tables.win_score T)
                 (match s_pv (id_st a) with Some _ => true | None => false end)
                 (zobrist_hash T (s_board (id_st a))) (pawn_hash T (s_board (id_st a))) (id_st a) = root_call T orc a) /\
  s_board (id_st (id_next T orc mt a)) = s_board (id_st a) /\
  line_inv T base prefix (zobrist_hash T (s_board (id_st (id_next T orc mt a)))) (id_st (id_next T orc mt a)).
Proof. exact root_iteration_inv_thm. Qed.
Print Assumptions C10_root_iteration_inv.

(* ---- C10_leaf_iff_threefold ----
   keys = hashes of game ++ line ++ node (oldest first), hm = the node's half-move clock as the code casts it.
   parity_ok_keys / no_dist2_keys (Spec/Draws.v) are the two facts of chess about hashes of positions of one game:
   a position an odd number of plies back has the other side to move, the position two plies back differs. *)
Theorem C10_leaf_iff_threefold : forall T base prefix ply zh st,
  line_inv T base prefix zh st ->
  let keys := line_keys T prefix (s_board st) in
  let hm := half (s_board st) mod 65536 in
  hm + 1 <= lenN keys -> parity_ok_keys keys -> no_dist2_keys keys ->
  (repetition_flag ply zh st = true <-> 0 < ply /\ threefold keys hm).
Proof. exact leaf_iff_threefold. Qed.
Print Assumptions C10_leaf_iff_threefold.

(* the half-move clock of the FEN may reach back beyond the FEN: the entries below it are 0, so provided the hash
   of the node is not 0 the test counts the recorded positions only (and so does [threefold]: [take] stops) *)
Theorem C10_leaf_iff_threefold_gen : forall T base prefix ply zh st,
  line_inv T base prefix zh st ->
  let keys := line_keys T prefix (s_board st) in
  let hm := half (s_board st) mod 65536 in
  zh <> 0 -> parity_ok_keys keys -> no_dist2_keys keys ->
  (repetition_flag ply zh st = true <-> 0 < ply /\ threefold keys hm).
Proof. exact leaf_iff_threefold_gen. Qed.
Print Assumptions C10_leaf_iff_threefold_gen.

Theorem C10_leaf_taken_iff_threefold : forall T orc base prefix ply zh st,
  line_inv T base prefix zh st ->
  let keys := line_keys T prefix (s_board st) in
  let hm := half (s_board st) mod 65536 in
  hm + 1 <= lenN keys \/ zh <> 0 -> parity_ok_keys keys -> no_dist2_keys keys ->
  (repetition_leaf_taken T orc ply zh st <-> fst (poll_block T orc st) = None /\ 0 < ply /\ threefold keys hm).
Proof. exact leaf_taken_iff_threefold. Qed.
Print Assumptions C10_leaf_taken_iff_threefold.

(* ---- C10_leaf_value ---- *)
(* what the prelude returns, by cases on the poll and on the flag (this is where `repetition_leaf_taken` comes from) *)
Theorem C10_node_prelude_cases : forall T orc ply rd a0 b0 zh st,
  match fst (poll_block T orc st) with
  | Some r => fst (node_prelude T orc ply rd a0 b0 zh st) = PreReturn r
  | None =>
      if repetition_flag ply zh st
      then fst (node_prelude T orc ply rd a0 b0 zh st)
           = PreReturn (leaf (Ink.Model.Tables.draw_score T + contempt_sign ply * s_contempt st)%Z)
      else True
  end.
Proof. exact node_prelude_cases. Qed.
Print Assumptions C10_node_prelude_cases.

(* value = draw score + contempt at even ply, - contempt at odd ply; no move, no continuation; whatever the depth,
   the window, the PV flag -- and the board is not mentioned on the right-hand side *)
Theorem C10_leaf_value : forall T orc d ply a0 b0 ispv zh zph st,
  repetition_leaf_taken T orc ply zh st ->
  fst (negamax T orc d ply a0 b0 ispv zh zph st)
  = VM (Ink.Model.Tables.draw_score T + (if N.even ply then 1 else -1) * s_contempt st)%Z None None.
Proof. exact leaf_value. Qed.
Print Assumptions C10_leaf_value.

(* irrespective of material: ANY two states (any two boards) that take the leaf at plies of the same parity get the
   same value *)
Theorem C10_leaf_value_any_board : forall T orc d d' ply ply' a0 b0 a0' b0' ispv ispv' zh zh' zph zph' st st',
  repetition_leaf_taken T orc ply zh st -> repetition_leaf_taken T orc ply' zh' st' ->
  N.even ply = N.even ply' -> s_contempt st = s_contempt st' ->
  fst (negamax T orc d ply a0 b0 ispv zh zph st) = fst (negamax T orc d' ply' a0' b0' ispv' zh' zph' st').
Proof. exact leaf_value_any_board. Qed.
Print Assumptions C10_leaf_value_any_board.

(* never at the root *)
Theorem C10_root_never_leaf : forall zh st, repetition_flag 0 zh st = false.
Proof. exact root_never_leaf. Qed.
Print Assumptions C10_root_never_leaf.

Theorem C10_root_never_leaf_taken : forall T orc zh st, ~ repetition_leaf_taken T orc 0 zh st.
Proof. exact root_never_leaf_taken. Qed.
Print Assumptions C10_root_never_leaf_taken.

(* the contempt factor is the constant the engine was created with, whatever the session *)
Theorem C10_contempt_fixed : forall T cmds,
  s_contempt (run_commands T cmds (init_state T)) = Ink.Model.Tables.contempt T.
Proof. exact contempt_fixed. Qed.
Print Assumptions C10_contempt_fixed.

(* ---- C10_fifty_in_search ---- *)
(* [evaluate] by branches: the fifty-move branch is the only one that reads the half-move clock, and it is only
   reachable with legal_moves_remaining = true *)
Theorem C10_evaluate_branches : forall T b lm,
  evaluate T b lm =
  if fifty_branch_taken T b lm then Ink.Model.Tables.draw_score T
  else if lm then evaluate_ongoing T b
  else if is_current_in_check T b then
         if turn b =? WHITE then (loss_score T + to_i32 (full b))%Z
         else if turn b =? BLACK then (Ink.Model.Tables.win_score T - to_i32 (full b))%Z
         else Ink.Model.Tables.draw_score T
       else Ink.Model.Tables.draw_score T.
Proof. exact evaluate_branches. Qed.
Print Assumptions C10_evaluate_branches.

Theorem C10_fifty_taken_iff : forall T b lm,
  fifty_branch_taken T b lm = true <-> lm = true /\ Ink.Model.Tables.max_half_moves T <= half b.
Proof. exact fifty_taken_iff. Qed.
Print Assumptions C10_fifty_taken_iff.

(* with the constant of the current tree: the branch is taken iff 100 plies have passed; then the value is the draw
   score; before, a position with legal moves gets its ordinary evaluation *)
Theorem C10_fifty_in_search : forall b,
  (fifty_branch_taken Ink.Gen.Tables.tables b true = true <-> 100 <= half b) /\
  (fifty_branch_taken Ink.Gen.Tables.tables b true = true ->
     evaluate Ink.Gen.Tables.tables b true = Ink.Model.Tables.draw_score Ink.Gen.Tables.tables) /\
  (half b < 100 -> evaluate Ink.Gen.Tables.tables b true = evaluate_ongoing Ink.Gen.Tables.tables b).
Proof. exact fifty_in_search_gen. Qed.
Print Assumptions C10_fifty_in_search.

(* where the search calls it with `true`: the quiet horizon leaf with a legal move ... *)
Theorem C10_fifty_leaf_node : forall T color alpha beta zph buffer st st1,
  any_move_legal T buffer st = (true, st1) -> is_any_move_non_quiescent buffer = false ->
  fst (leaf_node T color alpha beta zph buffer st) =
  leaf (heuristic_factor color *
        (if fifty_branch_taken T (s_board st1) true then Ink.Model.Tables.draw_score T
         else evaluate_ongoing T (s_board st1)))%Z.
Proof. exact leaf_node_quiet_value. Qed.
Print Assumptions C10_fifty_leaf_node.

(* ... (the stand-pat value of the capture search is the other one: evaluate_for _ _ true in Model/Search.v);
   a horizon leaf WITHOUT a legal move is mate or stalemate, never the fifty-move branch *)
Theorem C10_fifty_not_terminal : forall T color alpha beta zph buffer st st1,
  any_move_legal T buffer st = (false, st1) ->
  fst (leaf_node T color alpha beta zph buffer st) = leaf (evaluate_for T color (s_board st1) false) /\
  fifty_branch_taken T (s_board st1) false = false.
Proof. exact leaf_node_terminal_value. Qed.
Print Assumptions C10_fifty_not_terminal.

(* ---- a concrete line, computed: 1.Nf3 Nf6 2.Ng1 Ng8 3.Nf3 Nf6 4.Ng1 and now ...Ng8 ---- *)
Theorem C10_example_knight_shuffle :
  length ex_path = 8%nat /\
  line_invb ex_T 0 (removelast ex_path) (zobrist_hash ex_T (s_board ex_root)) ex_root = true /\
  match ex_child with
  | Some (st, zh) =>
      repetition_flag 1 zh st = true /\ repetition_flag 0 zh st = false /\
      fst (negamax ex_T ex_orc 0 1 (-100000)%Z 100000%Z false zh 0 st) = VM (-50)%Z None None /\
      fst (negamax ex_T ex_orc 2 1 (-100000)%Z 100000%Z false zh 0 st) = VM (-50)%Z None None /\
      fst (negamax ex_T ex_orc 0 2 (-100000)%Z 100000%Z false zh 0 st) = VM 50%Z None None
  | None => False
  end /\
  (let zh := zobrist_hash ex_T (s_board ex_root) in
   let zp := pawn_hash ex_T (s_board ex_root) in
   let r := negamax ex_T ex_orc 2 0 (loss_score ex_T) (Ink.Model.Tables.win_score ex_T) false zh zp ex_root in
   let r' := negamax_asserting ex_T ex_orc ex_poison 0 (removelast ex_path) 2 0 (loss_score ex_T)
                               (Ink.Model.Tables.win_score ex_T) false zh zp ex_root in
   (vm_value (fst r), s_nm_nodes (snd r), s_panicked (snd r)) = (vm_value (fst r'), s_nm_nodes (snd r'), s_panicked (snd r')) /\
   s_panicked (snd r) = false).
Proof. exact knight_shuffle. Qed.
Print Assumptions C10_example_knight_shuffle.

(* outside the stated range (full-move number 0, Black to move: accepted by the FEN reader) the ply clock goes 1, 0 *)
Theorem C10_example_clock_fullmove_zero :
  let b0 := board_of_fen (ex_fen (lit "4k3/8/8/8/8/8/8/4K3 b - - 0 0")) in
  full b0 = 0 /\ ply_clock_w b0 = 1 /\
  match find (fun m => (src m =? 4) && (dst m =? 3)) (gen_pseudo ex_T b0) with
  | Some m => match make b0 m with
              | Some b1 => ply_clock_w b1 = 0
              | None => False
              end
  | None => False
  end.
Proof. exact clock_fullmove_zero. Qed.
Print Assumptions C10_example_clock_fullmove_zero.

(* ==================================================================================================================
   THE CHESS INSTANCE (Proofs/RepetitionInstance.v on top of Proofs/ChessInstance.v): `search_family` holds for the
   regenerated tables with
     good_c10 T n b = wf b, rights_wf b, ep_free b, is_valid T b, half b + n < 4096   (good_chess, ChessInstance)
                      + ep_wf b (an e.p. square has the capturable pawn behind it) + full-move number >= 1,
   all of them executable checks on the position (good_c10b).  No abstract family is left in the statements below.
   ================================================================================================================== *)
Require Import Ink.Proofs.MakeUnmake Ink.Proofs.Preserve Ink.Proofs.ChessInstance Ink.Proofs.RepetitionInstance.

Theorem C10_good_c10_def : forall T n b, good_c10 T n b <->
  (wf b = true /\ rights_wf b = true /\ ep_free b = true /\ is_valid T b = true /\ half b + N.of_nat n < 4096) /\
  Ink.Proofs.ZobristProofs.ep_wf b = true /\ 1 <= full b.
Proof. exact good_c10_def. Qed.
Print Assumptions C10_good_c10_def.

Theorem C10_good_c10b_spec : forall T n b, good_c10b T n b = true <-> good_c10 T n b.
Proof. exact good_c10b_spec. Qed.
Print Assumptions C10_good_c10b_spec.

(* every generated move leaves a well-formed e.p. square behind (the missing piece for threading C06 through) *)
Theorem C10_generated_ep_wf : forall T, tables_chess_ok T = true ->
  forall b m b', wf b = true -> In m (gen_pseudo T b) -> make b m = Some b' -> Ink.Proofs.ZobristProofs.ep_wf b' = true.
Proof. intros T HT b m b' Hwf Hin. exact (generated_ep_wf T HT b m b' Hwf (Ink.Proofs.GenShape.gen_pseudo_cases T b m Hin)). Qed.
Print Assumptions C10_generated_ep_wf.

Theorem C10_search_family_gen : search_family Ink.Gen.Tables.tables (good_c10 Ink.Gen.Tables.tables) 129.
Proof. exact gen_search_family. Qed.
Print Assumptions C10_search_family_gen.

Theorem C10_line_recorded_chess : forall orc d bad base prefix ply a0 b0 ispv zh zph st,
  line_inv Ink.Gen.Tables.tables base prefix zh st -> good_c10 Ink.Gen.Tables.tables (d + 130) (s_board st) ->
  base + N.of_nat (length prefix) + N.of_nat d < 65536 ->
  negamax_asserting Ink.Gen.Tables.tables orc bad base prefix d ply a0 b0 ispv zh zph st
  = negamax Ink.Gen.Tables.tables orc d ply a0 b0 ispv zh zph st /\
  s_board (snd (negamax Ink.Gen.Tables.tables orc d ply a0 b0 ispv zh zph st)) = s_board st /\
  s_contempt (snd (negamax Ink.Gen.Tables.tables orc d ply a0 b0 ispv zh zph st)) = s_contempt st /\
  agree_lt (ply_clock_w (s_board st)) (s_history st)
           (s_history (snd (negamax Ink.Gen.Tables.tables orc d ply a0 b0 ispv zh zph st))).
Proof. exact line_recorded_chess. Qed.
Print Assumptions C10_line_recorded_chess.

Theorem C10_root_iteration_inv_chess : forall orc mt a base prefix,
  line_inv Ink.Gen.Tables.tables base prefix (zobrist_hash Ink.Gen.Tables.tables (s_board (id_st a))) (id_st a) ->
  good_c10 Ink.Gen.Tables.tables (id_fuel a + 130) (s_board (id_st a)) ->
  base + N.of_nat (length prefix) + N.of_nat (id_fuel a) < 65536 ->
  (forall bad, negamax_asserting Ink.Gen.Tables.tables orc bad base prefix (id_fuel a) 0
                 (loss_score Ink.Gen.Tables.tables) (Ink.Model.Tables.win_score Ink.Gen.Tables.tables)
                 (match s_pv (id_st a) with Some _ => true | None => false end)
                 (zobrist_hash Ink.Gen.Tables.tables (s_board (id_st a))) (pawn_hash Ink.Gen.Tables.tables (s_board (id_st a)))
                 (id_st a)
               = root_call Ink.Gen.Tables.tables orc a) /\
  s_board (id_st (id_next Ink.Gen.Tables.tables orc mt a)) = s_board (id_st a) /\
  line_inv Ink.Gen.Tables.tables base prefix
           (zobrist_hash Ink.Gen.Tables.tables (s_board (id_st (id_next Ink.Gen.Tables.tables orc mt a))))
           (id_st (id_next Ink.Gen.Tables.tables orc mt a)).
Proof. exact root_iteration_inv_chess. Qed.
Print Assumptions C10_root_iteration_inv_chess.

(* position command -> recorded game -> the invariant at the root; the FEN position has to leave room on the
   12-bit clock of Move for the moves of the game (good_chess with index = number of moves) *)
Theorem C10_position_root_inv_chess : forall f moves b h played st,
  let P0 := board_of_fen f in
  good_chess Ink.Gen.Tables.tables (length moves) P0 -> 1 <= full P0 -> ply_count P0 + N.of_nat (length moves) < 65536 ->
  position_result Ink.Gen.Tables.tables f moves = PosOk b h played ->
  exists bs, legal_line Ink.Gen.Tables.tables P0 played bs /\ length played = length moves /\ b = last bs P0 /\
    (forall i B, nth_error (P0 :: bs) i = Some B -> ply_clock_w B = ply_clock_w P0 + N.of_nat i) /\
    h = record_from hempty (ply_clock_w P0) (map (zobrist_hash Ink.Gen.Tables.tables) (P0 :: bs)) /\
    line_inv Ink.Gen.Tables.tables (ply_clock_w P0) (removelast (P0 :: bs)) (zobrist_hash Ink.Gen.Tables.tables b)
             (set_position_from Ink.Gen.Tables.tables f moves st).
Proof. exact position_root_inv_chess. Qed.
Print Assumptions C10_position_root_inv_chess.

(* satisfiable: the start position, and the root of the knight-shuffle example above *)
Theorem C10_good_c10_startpos : good_c10 Ink.Gen.Tables.tables 3965 (board_of_fen (ex_fen STARTPOS)).
Proof. exact good_c10_startpos. Qed.
Print Assumptions C10_good_c10_startpos.

Theorem C10_good_c10_knight_shuffle : good_c10 Ink.Gen.Tables.tables 3000 (s_board ex_root).
Proof. exact good_c10_knight_shuffle. Qed.
Print Assumptions C10_good_c10_knight_shuffle.

(* C08 - Shallow search scores are exact minimax values; forced mates are found and real.
   Spec:  Spec/Minimax.v (qs, horizon, nm, mate_in, extension trees, ply_unique) - abstract game.
   Model: Model/SearchCore.v (mirror of search_quiescence / search_negamax / the iteration loop of best_move).
   Proofs: Proofs/MinimaxProofs.v, AlphaBeta.v (no table), AlphaBetaTT.v (generic table proof), AlphaBetaInst.v
   (extension trees; ply_unique), MateProofs.v.
   Only pinned statements and closed examples here.  All section variables / hypotheses of the proofs appear as
   explicit premises: that is intended, the chess instance has to discharge them. *)
Require Import NArith ZArith List Bool Permutation Lia.
Import ListNotations.
Require Import Ink.Spec.Minimax Ink.Model.SearchCore Ink.Proofs.MinimaxProofs Ink.Proofs.AlphaBeta Ink.Proofs.AlphaBetaTT
               Ink.Proofs.AlphaBetaInst Ink.Proofs.MateProofs.
Open Scope Z_scope.

(* capture resolution: qs p = max (static p) (max over legal noisy q of - qs q) *)
Theorem C08_qs_unfold :
  forall (pos : Type) (noisy_succs : pos -> list pos) (static : pos -> Z) (qmeasure : pos -> nat),
  qmeasure_dec pos noisy_succs qmeasure ->
  forall p : pos,
  qs pos noisy_succs static qmeasure p =
  maxneg pos (qs pos noisy_succs static qmeasure) (noisy_succs p) (static p).
Proof. exact qs_unfold. Qed.
Print Assumptions C08_qs_unfold.

(* the code decides on PSEUDO-legal noisy moves whether to enter quiescence; that does not change the horizon value *)
Theorem C08_horizon_eq :
  forall (pos : Type) (succs noisy_succs : pos -> list pos) (noisy_any : pos -> bool)
    (static terminal : pos -> Z) (qmeasure : pos -> nat),
  qmeasure_dec pos noisy_succs qmeasure ->
  noisy_any_ok pos noisy_succs noisy_any ->
  forall p : pos,
  horizon pos succs noisy_succs noisy_any static terminal qmeasure p =
  (if nomoves pos succs p then terminal p else qs pos noisy_succs static qmeasure p).
Proof. exact horizon_eq. Qed.
Print Assumptions C08_horizon_eq.

(* search_quiescence is fail-hard: the result is the exact qs value clamped into [alpha, beta], for any move order *)
Theorem C08_qs_sound :
  forall (pos : Type) (noisy_succs : pos -> list pos) (static : pos -> Z) (qmeasure : pos -> nat),
  qmeasure_dec pos noisy_succs qmeasure ->
  forall order_q : pos -> list pos -> list pos,
  (forall (p : pos) (l : list pos), Permutation l (order_q p l)) ->
  forall (p : pos) (alpha beta : Z),
  alpha < beta ->
  let v := fst (qs_ab pos noisy_succs static order_q (qmeasure p) p alpha beta) in
  (alpha < v < beta -> v = qs pos noisy_succs static qmeasure p) /\
  (v <= alpha -> v = alpha /\ qs pos noisy_succs static qmeasure p <= alpha) /\
  (v >= beta -> v = beta /\ qs pos noisy_succs static qmeasure p >= beta).
Proof. exact qs_ab_sound. Qed.
Print Assumptions C08_qs_sound.

(* search_negamax without table: fail-soft contract w.r.t. the exact minimax value nm d p, any window, any move order *)
Theorem C08_alpha_beta_sound :
  forall (pos : Type) (succs noisy_succs : pos -> list pos) (noisy_any : pos -> bool)
    (static terminal : pos -> Z) (qmeasure : pos -> nat) (W : Z),
  qmeasure_dec pos noisy_succs qmeasure ->
  forall order_q : pos -> list pos -> list pos,
  (forall (p : pos) (l : list pos), Permutation l (order_q p l)) ->
  forall order : list pos -> pos -> list pos -> list pos,
  (forall (path : list pos) (p : pos) (l : list pos), Permutation l (order path p l)) ->
  forall (rep : list pos -> pos -> option Z) (root_empty : pos -> bool),
  (forall (path : list pos) (p : pos), rep path p = None) ->
  (forall p : pos, - W < static p < W) ->
  forall inb : nat -> pos -> Prop,
  (forall (k : nat) (p q : pos), inb (S k) p -> In q (succs p) -> inb k q) ->
  (forall (d : nat) (p : pos), inb d p -> succs p = [] -> - W < terminal p < W) ->
  forall (d : nat) (path : list pos) (p : pos) (alpha beta : Z),
  alpha < beta ->
  root_ok pos root_empty path p ->
  inb d p ->
  let v :=
    fst
      (negamax_ab pos succs noisy_succs noisy_any static terminal W qmeasure order_q order rep root_empty d
         path p alpha beta) in
  (alpha < v < beta -> v = nm pos succs noisy_succs noisy_any static terminal qmeasure d p) /\
  (v <= alpha -> nm pos succs noisy_succs noisy_any static terminal qmeasure d p <= v) /\
  (v >= beta -> nm pos succs noisy_succs noisy_any static terminal qmeasure d p >= v).
Proof. exact negamax_ab_sound. Qed.
Print Assumptions C08_alpha_beta_sound.

(* root call with the full window: exact value, and the principal variation realises it node by node *)
Theorem C08_root_exact :
  forall (pos : Type) (succs noisy_succs : pos -> list pos) (noisy_any : pos -> bool)
    (static terminal : pos -> Z) (qmeasure : pos -> nat) (W : Z),
  qmeasure_dec pos noisy_succs qmeasure ->
  forall order_q : pos -> list pos -> list pos,
  (forall (p : pos) (l : list pos), Permutation l (order_q p l)) ->
  forall order : list pos -> pos -> list pos -> list pos,
  (forall (path : list pos) (p : pos) (l : list pos), Permutation l (order path p l)) ->
  forall (rep : list pos -> pos -> option Z) (root_empty : pos -> bool),
  (forall (path : list pos) (p : pos), rep path p = None) ->
  (forall p : pos, - W < static p < W) ->
  forall inb : nat -> pos -> Prop,
  (forall (k : nat) (p q : pos), inb (S k) p -> In q (succs p) -> inb k q) ->
  (forall (d : nat) (p : pos), inb d p -> succs p = [] -> - W < terminal p < W) ->
  forall (d : nat) (p : pos),
  root_empty p = false ->
  inb d p ->
  let R :=
    negamax_ab pos succs noisy_succs noisy_any static terminal W qmeasure order_q order rep root_empty d [] p
      (- W) W in
  fst R = nm pos succs noisy_succs noisy_any static terminal qmeasure d p /\
  pvline pos succs noisy_succs noisy_any static terminal qmeasure d p (snd R) (fst R).
Proof. exact root_exact. Qed.
Print Assumptions C08_root_exact.

(* ... and the announced best move attains the value *)
Theorem C08_root_best_move :
  forall (pos : Type) (succs noisy_succs : pos -> list pos) (noisy_any : pos -> bool)
    (static terminal : pos -> Z) (qmeasure : pos -> nat) (W : Z),
  qmeasure_dec pos noisy_succs qmeasure ->
  forall order_q : pos -> list pos -> list pos,
  (forall (p : pos) (l : list pos), Permutation l (order_q p l)) ->
  forall order : list pos -> pos -> list pos -> list pos,
  (forall (path : list pos) (p : pos) (l : list pos), Permutation l (order path p l)) ->
  forall (rep : list pos -> pos -> option Z) (root_empty : pos -> bool),
  (forall (path : list pos) (p : pos), rep path p = None) ->
  (forall p : pos, - W < static p < W) ->
  forall inb : nat -> pos -> Prop,
  (forall (k : nat) (p q : pos), inb (S k) p -> In q (succs p) -> inb k q) ->
  (forall (d : nat) (p : pos), inb d p -> succs p = [] -> - W < terminal p < W) ->
  forall (k : nat) (p : pos),
  root_empty p = false ->
  inb (S k) p ->
  succs p <> [] ->
  let R :=
    negamax_ab pos succs noisy_succs noisy_any static terminal W qmeasure order_q order rep root_empty 
      (S k) [] p (- W) W in
  exists (q : pos) (pv' : list pos),
    snd R = q :: pv' /\
    In q (succs p) /\
    - nm pos succs noisy_succs noisy_any static terminal qmeasure k q =
    nm pos succs noisy_succs noisy_any static terminal qmeasure (S k) p /\
    fst R = nm pos succs noisy_succs noisy_any static terminal qmeasure (S k) p.
Proof. exact root_best_move. Qed.
Print Assumptions C08_root_best_move.

(* the returned chain is a line of legal moves, whatever the window *)
Theorem C08_pv_legal :
  forall (pos : Type) (succs noisy_succs : pos -> list pos) (noisy_any : pos -> bool)
    (static terminal : pos -> Z) (qmeasure : pos -> nat) (W : Z),
  noisy_sub pos succs noisy_succs ->
  forall order_q : pos -> list pos -> list pos,
  (forall (p : pos) (l : list pos), Permutation l (order_q p l)) ->
  forall order : list pos -> pos -> list pos -> list pos,
  (forall (path : list pos) (p : pos) (l : list pos), Permutation l (order path p l)) ->
  forall (rep : list pos -> pos -> option Z) (root_empty : pos -> bool) (d : nat) 
    (path : list pos) (p : pos) (alpha beta : Z),
  chain (legal_step pos succs) p
    (snd
       (negamax_ab pos succs noisy_succs noisy_any static terminal W qmeasure order_q order rep root_empty d
          path p alpha beta)).
Proof. exact negamax_ab_chain. Qed.
Print Assumptions C08_pv_legal.

(* pruning and move ordering never change the root value *)
Theorem C08_order_independent :
  forall (pos : Type) (succs noisy_succs : pos -> list pos) (noisy_any : pos -> bool)
    (static terminal : pos -> Z) (qmeasure : pos -> nat) (W : Z),
  qmeasure_dec pos noisy_succs qmeasure ->
  forall (rep : list pos -> pos -> option Z) (root_empty : pos -> bool),
  (forall (path : list pos) (p : pos), rep path p = None) ->
  (forall p : pos, - W < static p < W) ->
  forall inb : nat -> pos -> Prop,
  (forall (k : nat) (p q : pos), inb (S k) p -> In q (succs p) -> inb k q) ->
  (forall (d : nat) (p : pos), inb d p -> succs p = [] -> - W < terminal p < W) ->
  forall (order_q1 order_q2 : pos -> list pos -> list pos)
    (order1 order2 : list pos -> pos -> list pos -> list pos),
  (forall (p : pos) (l : list pos), Permutation l (order_q1 p l)) ->
  (forall (p : pos) (l : list pos), Permutation l (order_q2 p l)) ->
  (forall (path : list pos) (p : pos) (l : list pos), Permutation l (order1 path p l)) ->
  (forall (path : list pos) (p : pos) (l : list pos), Permutation l (order2 path p l)) ->
  forall (d : nat) (p : pos),
  root_empty p = false ->
  inb d p ->
  fst
    (negamax_ab pos succs noisy_succs noisy_any static terminal W qmeasure order_q1 order1 rep root_empty d []
       p (- W) W) =
  fst
    (negamax_ab pos succs noisy_succs noisy_any static terminal W qmeasure order_q2 order2 rep root_empty d []
       p (- W) W).
Proof. exact negamax_order_independent. Qed.
Print Assumptions C08_order_independent.

(* WITH the table, any valid table, any draft: two-sided extension-tree soundness; validity of the table is preserved.
   (The one-tree form "exists t, ok v (val t) a b" is FALSE for this code: C08_single_tree_refuted below.) *)
Theorem C08_tt_sound :
  forall (pos : Type) (succs noisy_succs : pos -> list pos) (noisy_any : pos -> bool)
    (static terminal : pos -> Z) (qmeasure : pos -> nat) (W : Z),
  qmeasure_dec pos noisy_succs qmeasure ->
  forall order_q : pos -> list pos -> list pos,
  (forall (p : pos) (l : list pos), Permutation l (order_q p l)) ->
  forall order : list pos -> pos -> list pos -> list pos,
  (forall (path : list pos) (p : pos) (l : list pos), Permutation l (order path p l)) ->
  forall (rep : list pos -> pos -> option Z) (root_empty : pos -> bool),
  (forall (path : list pos) (p : pos), rep path p = None) ->
  forall (table : Type) (tt_get : table -> N -> option (entry pos))
    (tt_put : table -> N -> entry pos -> table) (key : pos -> N) (M : Z),
  (forall (t : table) (k : N) (e : entry pos) (k' : N) (e' : entry pos),
   tt_get (tt_put t k e) k' = Some e' -> k' = k /\ e' = e \/ tt_get t k' = Some e') ->
  forall vis : pos -> Prop,
  (forall p q : pos, vis p -> In q (succs p) -> vis q) ->
  forall good : pos -> Prop,
  (forall (e : entry pos) (p p' : pos),
   vis p ->
   vis p' ->
   key p = key p' ->
   is_mate_score W M (e_value pos e) = false ->
   entry_ok pos (xadm pos succs noisy_succs noisy_any static terminal qmeasure good) e p ->
   entry_ok pos (xadm pos succs noisy_succs noisy_any static terminal qmeasure good) e p') ->
  forall (d : nat) (path : list pos) (p : pos) (a b : Z) (tt : table),
  - W <= a ->
  a < b ->
  b <= W ->
  vis p ->
  allpos pos good (nomtree pos succs d p) ->
  root_ok pos root_empty path p ->
  tt_valid_ext pos succs noisy_succs noisy_any static terminal qmeasure table tt_get key vis good tt ->
  let R :=
    negamax_tt pos succs noisy_succs noisy_any static terminal W qmeasure order_q order rep root_empty table
      tt_get tt_put key M d path p a b tt in
  let v := fst (fst R) in
  (a < v ->
   exists t : tree pos,
     root pos t = p /\
     ext pos succs d t /\
     allpos pos good t /\ v <= val pos succs noisy_succs noisy_any static terminal qmeasure t) /\
  (v < b ->
   exists t : tree pos,
     root pos t = p /\
     ext pos succs d t /\
     allpos pos good t /\ val pos succs noisy_succs noisy_any static terminal qmeasure t <= v) /\
  tt_valid_ext pos succs noisy_succs noisy_any static terminal qmeasure table tt_get key vis good (snd R).
Proof. exact negamax_tt_sound. Qed.
Print Assumptions C08_tt_sound.

(* the collision hypothesis ext_key / entry_key holds when the key is injective on the visitable positions *)
Theorem C08_key_inj_suffices :
  forall (pos : Type) (adm : nat -> pos -> Z -> Prop) (vis : pos -> Prop) (key : pos -> N) (W M : Z),
  (forall p p' : pos, vis p -> vis p' -> key p = key p' -> p = p') ->
  forall (e : entry pos) (p p' : pos),
  vis p ->
  vis p' ->
  key p = key p' -> is_mate_score W M (e_value pos e) = false -> entry_ok pos adm e p -> entry_ok pos adm e p'.
Proof. exact key_inj_entry_key. Qed.
Print Assumptions C08_key_inj_suffices.

(* no position key at two different plies: the table-using search obeys the plain fail-soft contract w.r.t. nm d p *)
Theorem C08_same_depth :
  forall (pos : Type) (succs noisy_succs : pos -> list pos) (noisy_any : pos -> bool)
    (static terminal : pos -> Z) (qmeasure : pos -> nat) (W : Z),
  qmeasure_dec pos noisy_succs qmeasure ->
  forall order_q : pos -> list pos -> list pos,
  (forall (p : pos) (l : list pos), Permutation l (order_q p l)) ->
  forall (rep : list pos -> pos -> option Z) (root_empty : pos -> bool),
  (forall (path : list pos) (p : pos), rep path p = None) ->
  forall (table : Type) (tt_get : table -> N -> option (entry pos))
    (tt_put : table -> N -> entry pos -> table) (key : pos -> N) (M : Z),
  (forall (t : table) (k : N) (e : entry pos) (k' : N) (e' : entry pos),
   tt_get (tt_put t k e) k' = Some e' -> k' = k /\ e' = e \/ tt_get t k' = Some e') ->
  forall (root0 : pos) (sim : nat -> pos -> pos -> Prop),
  (forall (r' r : nat) (x y : pos),
   sim r' x y ->
   (r <= r')%nat ->
   nm pos succs noisy_succs noisy_any static terminal qmeasure r x =
   nm pos succs noisy_succs noisy_any static terminal qmeasure r y) ->
  forall order : list pos -> pos -> list pos -> list pos,
  (forall (path : list pos) (p : pos) (l : list pos), Permutation l (order path p l)) ->
  forall D : nat,
  ply_unique pos succs key sim D root0 ->
  forall (d : nat) (path : list pos) (p : pos) (a b : Z) (tt : table) (i : nat),
  - W <= a ->
  a < b ->
  b <= W ->
  at_ply pos succs root0 i p ->
  (i + d)%nat = D ->
  root_ok pos root_empty path p ->
  tt_valid_nom pos succs noisy_succs noisy_any static terminal qmeasure table tt_get key root0 D tt ->
  let R :=
    negamax_tt pos succs noisy_succs noisy_any static terminal W qmeasure order_q order rep root_empty table
      tt_get tt_put key M d path p a b tt in
  ok (fst (fst R)) (nm pos succs noisy_succs noisy_any static terminal qmeasure d p) a b /\
  tt_valid_nom pos succs noisy_succs noisy_any static terminal qmeasure table tt_get key root0 D (snd R).
Proof. exact negamax_tt_same_depth. Qed.
Print Assumptions C08_same_depth.

(* `go depth D` = iterations 1..D on one table cleared at the start: exact value nm D and a best move attaining it *)
Theorem C08_go_depth_exact :
  forall (pos : Type) (succs noisy_succs : pos -> list pos) (noisy_any : pos -> bool)
    (static terminal : pos -> Z) (qmeasure : pos -> nat) (W : Z),
  qmeasure_dec pos noisy_succs qmeasure ->
  forall order_q : pos -> list pos -> list pos,
  (forall (p : pos) (l : list pos), Permutation l (order_q p l)) ->
  forall (rep : list pos -> pos -> option Z) (root_empty : pos -> bool),
  (forall (path : list pos) (p : pos), rep path p = None) ->
  forall (table : Type) (tt_get : table -> N -> option (entry pos))
    (tt_put : table -> N -> entry pos -> table) (key : pos -> N) (M : Z),
  (forall (t : table) (k : N) (e : entry pos) (k' : N) (e' : entry pos),
   tt_get (tt_put t k e) k' = Some e' -> k' = k /\ e' = e \/ tt_get t k' = Some e') ->
  (forall p : pos, - W < static p < W) ->
  forall inb : nat -> pos -> Prop,
  (forall (k : nat) (p q : pos), inb (S k) p -> In q (succs p) -> inb k q) ->
  (forall (d : nat) (p : pos), inb d p -> succs p = [] -> - W < terminal p < W) ->
  forall (root0 : pos) (sim : nat -> pos -> pos -> Prop),
  (forall (r' r : nat) (x y : pos),
   sim r' x y ->
   (r <= r')%nat ->
   nm pos succs noisy_succs noisy_any static terminal qmeasure r x =
   nm pos succs noisy_succs noisy_any static terminal qmeasure r y) ->
  (forall (r r' : nat) (x y : pos), (r <= r')%nat -> sim r' x y -> sim r x y) ->
  forall order_it : nat -> list pos -> pos -> list pos -> list pos,
  (forall (d : nat) (path : list pos) (p : pos) (l : list pos), Permutation l (order_it d path p l)) ->
  forall (D : nat) (tt0 : table),
  (1 <= D)%nat ->
  ply_unique pos succs key sim D root0 ->
  (forall k : N, tt_get tt0 k = None) ->
  root_empty root0 = false ->
  inb D root0 ->
  let R :=
    go_depth pos succs noisy_succs noisy_any static terminal W qmeasure order_q order_it rep root_empty table
      tt_get tt_put key M D root0 tt0 in
  fst (fst R) = nm pos succs noisy_succs noisy_any static terminal qmeasure D root0 /\
  (succs root0 <> [] ->
   exists (q : pos) (rest : list pos) (k : nat),
     D = S k /\
     snd (fst R) = q :: rest /\
     In q (succs root0) /\
     - nm pos succs noisy_succs noisy_any static terminal qmeasure k q =
     nm pos succs noisy_succs noisy_any static terminal qmeasure D root0).
Proof. exact go_depth_exact. Qed.
Print Assumptions C08_go_depth_exact.

(* a forced mate in exactly n has the same value in EVERY extension tree of depth >= 2n-1 (deeper search keeps it) *)
Theorem C08_mate_stable :
  forall (pos : Type) (succs noisy_succs : pos -> list pos) (noisy_any : pos -> bool)
    (static terminal : pos -> Z) (qmeasure : pos -> nat) (checkmated : pos -> bool) 
    (W M : Z) (movenum : pos -> Z) (black : pos -> bool),
  checkmated_ok pos succs checkmated ->
  terminal_mate pos terminal checkmated W movenum ->
  clock_step pos succs movenum black ->
  quiet_static pos static W M ->
  quiet_terminal pos succs terminal checkmated W M ->
  0 <= M <= W ->
  forall (n : nat) (p : pos) (t : tree pos) (r : nat),
  (1 <= n)%nat ->
  mate_in pos succs checkmated n p ->
  root pos t = p ->
  ext pos succs r t ->
  (2 * n - 1 <= r)%nat ->
  allpos pos (good pos M movenum) t ->
  movenum p + bump pos black p + Z.of_nat n <= M ->
  val pos succs noisy_succs noisy_any static terminal qmeasure t = mate_value pos W movenum black n p.
Proof. exact mate_stable. Qed.
Print Assumptions C08_mate_stable.

(* ... in particular for the nominal value *)
Theorem C08_nm_mate :
  forall (pos : Type) (succs noisy_succs : pos -> list pos) (noisy_any : pos -> bool)
    (static terminal : pos -> Z) (qmeasure : pos -> nat) (checkmated : pos -> bool) 
    (W M : Z) (movenum : pos -> Z) (black : pos -> bool),
  checkmated_ok pos succs checkmated ->
  terminal_mate pos terminal checkmated W movenum ->
  clock_step pos succs movenum black ->
  quiet_static pos static W M ->
  quiet_terminal pos succs terminal checkmated W M ->
  0 <= M <= W ->
  forall (n d : nat) (p : pos),
  (1 <= n)%nat ->
  mate_in pos succs checkmated n p ->
  (2 * n - 1 <= d)%nat ->
  0 <= movenum p ->
  movenum p + Z.of_nat d + 2 <= M ->
  nm pos succs noisy_succs noisy_any static terminal qmeasure d p = mate_value pos W movenum black n p.
Proof. exact nm_mate. Qed.
Print Assumptions C08_nm_mate.

(* a move attaining the mate value leaves the opponent lost in n-1 *)
Theorem C08_best_move_keeps_mate :
  forall (pos : Type) (succs noisy_succs : pos -> list pos) (noisy_any : pos -> bool)
    (static terminal : pos -> Z) (qmeasure : pos -> nat) (checkmated : pos -> bool) 
    (W M : Z) (movenum : pos -> Z) (black : pos -> bool),
  checkmated_ok pos succs checkmated ->
  terminal_mate pos terminal checkmated W movenum ->
  clock_step pos succs movenum black ->
  quiet_static pos static W M ->
  quiet_terminal pos succs terminal checkmated W M ->
  0 <= M <= W ->
  forall (n k : nat) (p q : pos),
  (1 <= n)%nat ->
  In q (succs p) ->
  - nm pos succs noisy_succs noisy_any static terminal qmeasure k q = mate_value pos W movenum black n p ->
  0 <= movenum p ->
  movenum p + Z.of_nat k + 3 <= M ->
  movenum p + bump pos black p + Z.of_nat n + 1 <= M ->
  lose_in pos succs checkmated (Init.Nat.pred n) q = true.
Proof. exact best_move_keeps_mate. Qed.
Print Assumptions C08_best_move_keeps_mate.

(* whenever a positive mate score is reported, the pv starts with a legal line of 2N-1 plies ending in checkmate *)
Theorem C08_reported_mate_is_real :
  forall (pos : Type) (succs noisy_succs : pos -> list pos) (noisy_any : pos -> bool)
    (static terminal : pos -> Z) (qmeasure : pos -> nat) (checkmated : pos -> bool) 
    (W M : Z) (movenum : pos -> Z) (black : pos -> bool),
  qmeasure_dec pos noisy_succs qmeasure ->
  checkmated_ok pos succs checkmated ->
  terminal_mate pos terminal checkmated W movenum ->
  clock_step pos succs movenum black ->
  quiet_static pos static W M ->
  quiet_terminal pos succs terminal checkmated W M ->
  0 <= M <= W ->
  forall order_q : pos -> list pos -> list pos,
  (forall (p : pos) (l : list pos), Permutation l (order_q p l)) ->
  forall (rep : list pos -> pos -> option Z) (root_empty : pos -> bool),
  (forall (path : list pos) (p : pos), rep path p = None) ->
  1 <= M ->
  forall order : list pos -> pos -> list pos -> list pos,
  (forall (path : list pos) (p : pos) (l : list pos), Permutation l (order path p l)) ->
  forall (d : nat) (p : pos),
  root_empty p = false ->
  inb pos M movenum d p ->
  let R :=
    negamax_ab pos succs noisy_succs noisy_any static terminal W qmeasure order_q order rep root_empty d [] p
      (- W) W in
  W - M < fst R ->
  exists (line rest : list pos) (n : nat),
    snd R = line ++ rest /\
    chain (legal_step pos succs) p line /\
    (1 <= n)%nat /\
    length line = (2 * n - 1)%nat /\
    (2 * n - 1 <= d)%nat /\ checkmated (last line p) = true /\ fst R = mate_value pos W movenum black n p.
Proof. exact reported_mate_is_real. Qed.
Print Assumptions C08_reported_mate_is_real.

(* mate in n is found by the depth 2n-1 search: score of mate n, a first move that keeps the mate, the mating line *)
Theorem C08_mates :
  forall (pos : Type) (succs noisy_succs : pos -> list pos) (noisy_any : pos -> bool)
    (static terminal : pos -> Z) (qmeasure : pos -> nat) (checkmated : pos -> bool) 
    (W M : Z) (movenum : pos -> Z) (black : pos -> bool),
  qmeasure_dec pos noisy_succs qmeasure ->
  checkmated_ok pos succs checkmated ->
  terminal_mate pos terminal checkmated W movenum ->
  clock_step pos succs movenum black ->
  quiet_static pos static W M ->
  quiet_terminal pos succs terminal checkmated W M ->
  0 <= M <= W ->
  forall order_q : pos -> list pos -> list pos,
  (forall (p : pos) (l : list pos), Permutation l (order_q p l)) ->
  forall (rep : list pos -> pos -> option Z) (root_empty : pos -> bool),
  (forall (path : list pos) (p : pos), rep path p = None) ->
  1 <= M ->
  forall order : list pos -> pos -> list pos -> list pos,
  (forall (path : list pos) (p : pos) (l : list pos), Permutation l (order path p l)) ->
  forall (n : nat) (p : pos),
  (1 <= n)%nat ->
  mate_in pos succs checkmated n p ->
  root_empty p = false ->
  1 <= movenum p ->
  movenum p + Z.of_nat (2 * n - 1) + 3 <= M ->
  let R :=
    negamax_ab pos succs noisy_succs noisy_any static terminal W qmeasure order_q order rep root_empty
      (2 * n - 1) [] p (- W) W in
  fst R = mate_value pos W movenum black n p /\
  (exists (q : pos) (rest : list pos),
     snd R = q :: rest /\ In q (succs p) /\ lose_in pos succs checkmated (Init.Nat.pred n) q = true) /\
  (exists line rest : list pos,
     snd R = line ++ rest /\
     chain (legal_step pos succs) p line /\ length line = (2 * n - 1)%nat /\ checkmated (last line p) = true).
Proof. exact search_finds_mate. Qed.
Print Assumptions C08_mates.

(* with the table, any draft >= 2n-1 and any valid table: still exactly the score of mate n *)
Theorem C08_mates_tt :
  forall (pos : Type) (succs noisy_succs : pos -> list pos) (noisy_any : pos -> bool)
    (static terminal : pos -> Z) (qmeasure : pos -> nat) (checkmated : pos -> bool) 
    (W M : Z) (movenum : pos -> Z) (black : pos -> bool),
  qmeasure_dec pos noisy_succs qmeasure ->
  checkmated_ok pos succs checkmated ->
  terminal_mate pos terminal checkmated W movenum ->
  clock_step pos succs movenum black ->
  quiet_static pos static W M ->
  quiet_terminal pos succs terminal checkmated W M ->
  0 <= M <= W ->
  forall order_q : pos -> list pos -> list pos,
  (forall (p : pos) (l : list pos), Permutation l (order_q p l)) ->
  forall (rep : list pos -> pos -> option Z) (root_empty : pos -> bool),
  (forall (path : list pos) (p : pos), rep path p = None) ->
  1 <= M ->
  forall order : list pos -> pos -> list pos -> list pos,
  (forall (path : list pos) (p : pos) (l : list pos), Permutation l (order path p l)) ->
  forall (table : Type) (tt_get : table -> N -> option (entry pos))
    (tt_put : table -> N -> entry pos -> table) (key : pos -> N),
  (forall (t : table) (k : N) (e : entry pos) (k' : N) (e' : entry pos),
   tt_get (tt_put t k e) k' = Some e' -> k' = k /\ e' = e \/ tt_get t k' = Some e') ->
  forall vis : pos -> Prop,
  (forall p q : pos, vis p -> In q (succs p) -> vis q) ->
  (forall (e : entry pos) (p p' : pos),
   vis p ->
   vis p' ->
   key p = key p' ->
   is_mate_score W M (e_value pos e) = false ->
   entry_ok pos (xadm pos succs noisy_succs noisy_any static terminal qmeasure (good pos M movenum)) e p ->
   entry_ok pos (xadm pos succs noisy_succs noisy_any static terminal qmeasure (good pos M movenum)) e p') ->
  forall (n d : nat) (p : pos) (tt : table),
  (1 <= n)%nat ->
  mate_in pos succs checkmated n p ->
  (2 * n - 1 <= d)%nat ->
  root_empty p = false ->
  vis p ->
  tt_valid_ext pos succs noisy_succs noisy_any static terminal qmeasure table tt_get key vis
    (good pos M movenum) tt ->
  1 <= movenum p ->
  movenum p + Z.of_nat d + 2 <= M ->
  let R :=
    negamax_tt pos succs noisy_succs noisy_any static terminal W qmeasure order_q order rep root_empty table
      tt_get tt_put key M d [] p (- W) W tt in
  fst (fst R) = mate_value pos W movenum black n p /\
  tt_valid_ext pos succs noisy_succs noisy_any static terminal qmeasure table tt_get key vis
    (good pos M movenum) (snd R).
Proof. exact search_finds_mate_tt. Qed.
Print Assumptions C08_mates_tt.

(* ================================================================== *)
(* Examples: the hypotheses are satisfiable, and a narrow window really yields a bound, not the value *)
Module Ex.

(* a hand-made tree, two plies + one capture at the horizon.
     0 -> 1 -> 4 (static 3, capture -> 104 with static -5, so qs 4 = 5), 5 (6)
       -> 2 -> 6 (2), 7 (9)
       -> 3 -> 8 (1), 9 (4)
   every horizon position n has one quiet move to 100+n, which has no move (so horizon positions are not terminal);
   for 4 that move is the capture. *)
Definition succs (p : nat) : list nat :=
  match p with
  | 0 => [1; 2; 3] | 1 => [4; 5] | 2 => [6; 7] | 3 => [8; 9]
  | 4 => [104] | 5 => [105] | 6 => [106] | 7 => [107] | 8 => [108] | 9 => [109]
  | _ => []
  end%nat.
Definition noisy_succs (p : nat) : list nat := if Nat.eqb p 4 then [104%nat] else [].
Definition noisy_any (p : nat) : bool := Nat.eqb p 4 || Nat.eqb p 5.            (* 5: an illegal capture *)
Definition static (p : nat) : Z :=
  match p with
  | 4%nat => 3 | 5%nat => 6 | 6%nat => 2 | 7%nat => 9 | 8%nat => 1 | 9%nat => 4 | 104%nat => -5 | _ => 0
  end.
Definition terminal (p : nat) : Z := 0.
Definition qmeasure (p : nat) : nat := if Nat.eqb p 4 then 1%nat else 0%nat.
Definition W : Z := 1000.
Definition M : Z := 100.
Definition ident (p : nat) (l : list nat) : list nat := l.
Definition rev_order (path : list nat) (p : nat) (l : list nat) : list nat := rev l.
Definition id_order (path : list nat) (p : nat) (l : list nat) : list nat := l.
Definition no_rep (path : list nat) (p : nat) : option Z := None.
Definition root_empty (p : nat) : bool := false.

Lemma hyp_noisy_sub : noisy_sub nat succs noisy_succs.
Proof.
  intros p q. unfold noisy_succs. destruct (Nat.eqb_spec p 4) as [->|_]; [|intros []].
  intros [<-|[]]. now left.
Qed.
Lemma hyp_qmeasure_dec : qmeasure_dec nat noisy_succs qmeasure.
Proof.
  intros p q. unfold noisy_succs. destruct (Nat.eqb_spec p 4) as [->|_]; [|intros []].
  intros [<-|[]]. cbn. lia.
Qed.
Lemma hyp_noisy_any_ok : noisy_any_ok nat noisy_succs noisy_any.
Proof. intros p. unfold noisy_any, noisy_succs. destruct (Nat.eqb p 4); [discriminate|reflexivity]. Qed.
Lemma hyp_rev_perm : forall path p l, Permutation l (rev_order path p l).
Proof. intros. apply Permutation_rev. Qed.

Definition ab := negamax_ab nat succs noisy_succs noisy_any static terminal W qmeasure ident id_order no_rep root_empty.
Definition ab_rev := negamax_ab nat succs noisy_succs noisy_any static terminal W qmeasure ident rev_order no_rep root_empty.
Definition NM := nm nat succs noisy_succs noisy_any static terminal qmeasure.

Example spec_values : (qs nat noisy_succs static qmeasure 4, NM 1 1, NM 1 2, NM 1 3, NM 2 0)%nat = (5, -5, -2, -1, 5).
Proof. vm_compute. reflexivity. Qed.

(* full window: exact value, pv = best move, reply, and the capture inside quiescence; same value for the other order *)
Example full_window : ab 2 [] 0%nat (- W) W = (5, [1; 4; 104]%nat) /\ fst (ab_rev 2 [] 0%nat (- W) W) = 5.
Proof. vm_compute. split; reflexivity. Qed.

(* window (6, 8): the true value 5 is below it; the search fails low and returns 6 - an upper bound, not the value *)
Example narrow_window_fail_low : fst (ab 2 [] 0%nat 6 8) = 6 /\ NM 2 0%nat = 5.
Proof. vm_compute. split; reflexivity. Qed.

(* window (1, 3): the value is above it; the search fails high after the first move with the lower bound 3 = beta
   (not 5: the stand-pat cut of the fail-hard quiescence at position 4 returns beta) *)
Example narrow_window_fail_high : ab 2 [] 0%nat 1 3 = (3, [1; 4]%nat).
Proof. vm_compute. reflexivity. Qed.

(* quiescence alone is fail-hard: qs 4 = 5 is reported as 4 inside (2,4) and as 7 inside (7,9) *)
Example qs_clamps :
  (fst (qs_ab nat noisy_succs static ident 1 4%nat 2 4), fst (qs_ab nat noisy_succs static ident 1 4%nat 7 9),
   fst (qs_ab nat noisy_succs static ident 1 4%nat 0 9)) = (4, 7, 5).
Proof. vm_compute. reflexivity. Qed.

(* the premises of C08_root_exact hold for this game: the theorem applies for every depth *)
Lemma hyp_static_bound : forall p, - W < static p < W.
Proof. intros p. unfold static, W. do 105 (destruct p as [|p]; [lia|]). lia. Qed.

Example root_exact_applies : forall d, fst (ab d [] 0%nat (- W) W) = NM d 0%nat.
Proof.
  intros d.
  exact (proj1 (C08_root_exact nat succs noisy_succs noisy_any static terminal qmeasure W hyp_qmeasure_dec
                  ident (fun _ l => Permutation_refl l) id_order (fun _ _ l => Permutation_refl l) no_rep root_empty
                  (fun _ _ => eq_refl) hyp_static_bound (fun _ _ => True) (fun _ _ _ _ _ => I)
                  (fun _ _ _ _ => ltac:(unfold terminal, W; lia)) d 0%nat eq_refl I)).
Qed.

(* ---- a table: association list, newest first ---- *)
Definition table := list (N * entry nat).
Fixpoint tt_get (t : table) (k : N) : option (entry nat) :=
  match t with [] => None | (k', e) :: r => if N.eqb k k' then Some e else tt_get r k end.
Definition tt_put (t : table) (k : N) (e : entry nat) : table := (k, e) :: t.
Definition key (p : nat) : N := N.of_nat p.

Lemma hyp_tt_put_spec : forall t k e k' e',
  tt_get (tt_put t k e) k' = Some e' -> (k' = k /\ e' = e) \/ tt_get t k' = Some e'.
Proof.
  intros t k e k' e'. cbn [tt_put tt_get]. destruct (N.eqb_spec k' k) as [->|Hne]; [|now right].
  intros [= <-]. now left.
Qed.

Definition go := go_depth nat succs noisy_succs noisy_any static terminal W qmeasure ident (fun _ => id_order) no_rep
                          root_empty table tt_get tt_put key M.

(* `go depth 2` on the empty table: value 5, best move 1, and what the two iterations left in the table *)
Example go_depth_2 : fst (go 2%nat 0%nat []) = (5, [1; 4; 104]%nat) /\ length (snd (go 2%nat 0%nat [])) = 5%nat.
Proof. vm_compute. split; reflexivity. Qed.

End Ex.

(* ================================================================== *)
(* The one-tree reading of table soundness is false for this code.
   X = 0 -> c = 1 -> e = 2.  c: static -10 and a pseudo-legal (illegal) capture, so the horizon value of c is the
   fail-hard quiescence value.  e has no move and is worth 100 to its mover.  Extension trees of X of depth >= 1 are
   worth 10 (c at the horizon) or 100 (c expanded).  The table holds a VALID lower bound 50 of depth 2 for X.  A depth 1
   search of X with window (0, 100) raises alpha to 50, the quiescence below clamps to the window, and the node returns 50
   strictly inside its window - and stores it as Exact - although no extension tree of X is worth 50. *)
Module Refute.
Definition succs (p : nat) : list nat := match p with 0%nat => [1%nat] | 1%nat => [2%nat] | _ => [] end.
Definition noisy_succs (p : nat) : list nat := [].
Definition noisy_any (p : nat) : bool := match p with 1%nat => true | _ => false end.
Definition static (p : nat) : Z := match p with 1%nat => -10 | _ => 0 end.
Definition terminal (p : nat) : Z := match p with 2%nat => 100 | _ => 0 end.
Definition qmeasure (p : nat) : nat := 0%nat.
Definition W : Z := 1000.
Definition M : Z := 100.
Definition tt0 : Ex.table := [(0%N, {| e_depth := 2; e_value := 50; e_type := Lower; e_pv := [] |})].
Definition vis (p : nat) : Prop := True.
Definition good (p : nat) : Prop := True.

Definition search := negamax_tt nat succs noisy_succs noisy_any static terminal W qmeasure Ex.ident Ex.id_order Ex.no_rep
                                Ex.root_empty Ex.table Ex.tt_get Ex.tt_put Ex.key M.
Local Notation VAL := (val nat succs noisy_succs noisy_any static terminal qmeasure).

Lemma allpos_true : forall t : tree nat, allpos nat good t.
Proof.
  induction t as [p|p ts IH] using (tree_ind2 nat); [exact I|].
  rewrite (allpos_node nat good). split; [exact I|exact IH].
Qed.

Lemma valid_tt0 : tt_valid_ext nat succs noisy_succs noisy_any static terminal qmeasure Ex.table Ex.tt_get Ex.key vis good tt0.
Proof.
  split.
  - intros p e _. unfold tt0, Ex.key. cbn [Ex.tt_get]. destruct (N.eqb_spec (N.of_nat p) 0) as [Hp|Hp]; [|discriminate].
    intros [= <-]. assert (p = 0%nat) as -> by lia.
    unfold AlphaBetaTT.entry_ok. cbn [e_type e_depth e_value].
    exists (nm nat succs noisy_succs noisy_any static terminal qmeasure 2 0%nat).
    split; [apply xadm_nominal; apply allpos_true|vm_compute; discriminate].
  - intros k e. unfold tt0. cbn [Ex.tt_get]. destruct (N.eqb_spec k 0) as [->|Hk]; [|discriminate].
    intros _. exists 0%nat. split; [exact I|reflexivity].
Qed.

Lemma single_child (a : nat) (ts : list (tree nat)) :
  Permutation (map (root nat) ts) [a] -> exists c, ts = [c] /\ root nat c = a.
Proof.
  intros HP. apply Permutation_sym, Permutation_length_1_inv in HP.
  destruct ts as [|c [|c' ts']]; cbn [map] in HP; try discriminate. injection HP as HP. now exists c.
Qed.

Lemma trees_of_X : forall t, root nat t = 0%nat -> ext nat succs 1 t -> VAL t = 10 \/ VAL t = 100.
Proof.
  intros t Hr He. destruct t as [p|p ts]; cbn [root] in Hr; subst p.
  - inversion He as [|r p Hs|]; subst. discriminate.
  - inversion He as [| |r p ts0 Hne HP HF]; subst. destruct (single_child _ _ HP) as (c & -> & Hc).
    inversion HF as [|x l He1 _]; subst. cbn [pred] in He1.
    destruct c as [p1|p1 ts1]; cbn [root] in Hc; subst p1.
    + left. vm_compute. reflexivity.
    + inversion He1 as [| |r p ts0 Hne1 HP1 HF1]; subst. destruct (single_child _ _ HP1) as (c2 & -> & Hc2).
      inversion HF1 as [|x l He2 _]; subst.
      destruct c2 as [p2|p2 ts2]; cbn [root] in Hc2; subst p2.
      * right. vm_compute. reflexivity.
      * inversion He2 as [| |r p ts0 Hne2 _ _]; subst. exfalso. now apply Hne2.
Qed.

Example C08_single_tree_refuted :
  tt_valid_ext nat succs noisy_succs noisy_any static terminal qmeasure Ex.table Ex.tt_get Ex.key vis good tt0 /\
  fst (search 1%nat [] 0%nat 0 100 tt0) = (50, [1%nat]) /\
  Ex.tt_get (snd (search 1%nat [] 0%nat 0 100 tt0)) 0%N =
    Some {| e_depth := 1; e_value := 50; e_type := Exact; e_pv := [1%nat] |} /\
  (forall t, root nat t = 0%nat -> ext nat succs 1 t -> VAL t <> 50).
Proof.
  split; [exact valid_tt0|]. split; [vm_compute; reflexivity|]. split; [vm_compute; reflexivity|].
  intros t Hr He. destruct (trees_of_X t Hr He) as [-> | ->]; discriminate.
Qed.
Print Assumptions C08_single_tree_refuted.

End Refute.

(* ================================================================== *)
(* The CONCRETE search refines the mirrors above; the theorems transfer.
   Model/Search.v (quiescence, leaf_node, negamax, go_full) is the executable model that is tied to the engine by exact
   differential runs (node counts, scores, PVs); Proofs/ChessGame.v instantiates the abstract game with chess,
   Proofs/SearchRefine.v proves the refinement.  Everything is relative to
     C03_family T good Q      make/unmake are inverse on the boards of the search  (Proofs/SearchProofs.v)
     good n b -> sane b       well formed, consistent castling rights and e.p. square (ZobristProofs.good)
     quiet orc, plain_go g    no abort, no message, no time control, no searchmoves: polls do not change values
   and, from depth 2 on, ND T good (distinct legal moves give distinct positions), ply_unique (as above) and
   half-move clock + depth < 6 (then the repetition leaf cannot fire, whatever the game history). *)
Require Import Ink.Model.Tables Ink.Model.Board Ink.Model.Search.
Require Ink.Lib.Str Ink.Model.HashTable Ink.Model.History Ink.Proofs.ZobristProofs Ink.Proofs.MakeUnmake Ink.Gen.Tables.
Require Import Ink.Proofs.SearchProofs Ink.Proofs.ChessGame Ink.Proofs.SearchRefine.
Require Coq.Strings.String.
Open Scope Z_scope.

(* ---- the chess instance satisfies the hypotheses of the abstract game ---- *)
Theorem C08_chess_noisy_sub : forall T : Tables.t,
  noisy_sub board (ChessGame.succs T) (ChessGame.noisy_succs T).
Proof. exact chess_noisy_sub. Qed.
Print Assumptions C08_chess_noisy_sub.

Theorem C08_chess_qmeasure_dec : forall T : Tables.t, ZobristProofs.gen_masks_ok T = true ->
  qmeasure_dec board (ChessGame.noisy_succs T) ChessGame.qmeasure.
Proof. exact chess_qmeasure_dec. Qed.
Print Assumptions C08_chess_qmeasure_dec.

Theorem C08_chess_noisy_any_ok : forall T : Tables.t, ZobristProofs.gen_masks_ok T = true ->
  noisy_any_ok board (ChessGame.noisy_succs T) (ChessGame.noisy_any T).
Proof. exact chess_noisy_any_ok. Qed.
Print Assumptions C08_chess_noisy_any_ok.

(* on a sane board the noisy successors are exactly the legal children of the capture generator *)
Theorem C08_chess_noisy_succs_sane : forall (T : Tables.t) (b : board), sane b = true ->
  ChessGame.noisy_succs T b = ChessGame.children T b (gen_nonquiet T b).
Proof. exact noisy_succs_sane. Qed.
Print Assumptions C08_chess_noisy_succs_sane.

(* the fuel the engine gives its capture search is more than the measure *)
Theorem C08_qfuel_suffices : forall b : board, wf b = true -> (ChessGame.qmeasure b < qfuel b)%nat.
Proof. exact qmeasure_lt_qfuel. Qed.
Print Assumptions C08_qfuel_suffices.

(* ---- (a) quiescence ---- *)
Theorem C08_quiescence_refines : forall T : Tables.t, ZobristProofs.gen_masks_ok T = true ->
  forall (good : nat -> board -> Prop) (Q : nat), C03_family T good Q ->
  (forall n b, good n b -> sane b = true) ->
  forall (fuel : nat) (alpha beta : Z) (zph : N) (st : sstate),
  good fuel (s_board st) -> (ChessGame.qmeasure (s_board st) < fuel)%nat ->
  vm_value (fst (quiescence T fuel alpha beta zph st)) =
  fst (qs_ab board (ChessGame.noisy_succs T) (ChessGame.static T) (order_q T) (ChessGame.qmeasure (s_board st))
         (s_board st) alpha beta).
Proof. exact quiescence_refines_closed. Qed.
Print Assumptions C08_quiescence_refines.

Theorem C08_quiescence_concrete : forall T : Tables.t, ZobristProofs.gen_masks_ok T = true ->
  forall (good : nat -> board -> Prop) (Q : nat), C03_family T good Q ->
  (forall n b, good n b -> sane b = true) ->
  forall (fuel : nat) (alpha beta : Z) (zph : N) (st : sstate),
  good fuel (s_board st) -> (ChessGame.qmeasure (s_board st) < fuel)%nat -> alpha < beta ->
  vm_value (fst (quiescence T fuel alpha beta zph st)) =
  clamp alpha beta (Minimax.qs board (ChessGame.noisy_succs T) (ChessGame.static T) ChessGame.qmeasure (s_board st)).
Proof. exact quiescence_concrete_closed. Qed.
Print Assumptions C08_quiescence_concrete.

(* ---- (b) the horizon node ---- *)
Theorem C08_horizon_refines : forall T : Tables.t, ZobristProofs.gen_masks_ok T = true ->
  forall (good : nat -> board -> Prop) (Q : nat), C03_family T good Q ->
  (forall n b, good n b -> sane b = true) ->
  forall (alpha beta : Z) (zph : N) (st : sstate),
  good (S Q) (s_board st) ->
  vm_value (fst (leaf_node T (turn (s_board st)) alpha beta zph (gen_pseudo T (s_board st)) st)) =
  fst (horizon_ab board (ChessGame.succs T) (ChessGame.noisy_succs T) (ChessGame.noisy_any T) (ChessGame.static T)
         (ChessGame.terminal T) ChessGame.qmeasure (order_q T) (s_board st) alpha beta).
Proof. exact leaf_node_refines_closed. Qed.
Print Assumptions C08_horizon_refines.

Theorem C08_horizon_concrete : forall T : Tables.t, ZobristProofs.gen_masks_ok T = true ->
  forall (good : nat -> board -> Prop) (Q : nat), C03_family T good Q ->
  (forall n b, good n b -> sane b = true) ->
  forall (alpha beta : Z) (zph : N) (st : sstate),
  good (S Q) (s_board st) ->
  alpha < horizon board (ChessGame.succs T) (ChessGame.noisy_succs T) (ChessGame.noisy_any T) (ChessGame.static T)
            (ChessGame.terminal T) ChessGame.qmeasure (s_board st) < beta ->
  vm_value (fst (leaf_node T (turn (s_board st)) alpha beta zph (gen_pseudo T (s_board st)) st)) =
  horizon board (ChessGame.succs T) (ChessGame.noisy_succs T) (ChessGame.noisy_any T) (ChessGame.static T)
    (ChessGame.terminal T) ChessGame.qmeasure (s_board st).
Proof. exact leaf_node_concrete_closed. Qed.
Print Assumptions C08_horizon_concrete.

(* ---- (c)/(d) node level: search_negamax = negamax_tt for SOME ordering oracle that is a permutation, the concrete
   table being related entry by entry (depth, value, bound type) to the abstract one; [node_ok] spells it out ---- *)
Theorem C08_negamax_refines : forall T : Tables.t, ZobristProofs.gen_masks_ok T = true ->
  forall (good : nat -> board -> Prop) (Q : nat), C03_family T good Q ->
  (forall n b, good n b -> sane b = true) ->
  ZobristProofs.keys_rows_ok T = true ->
  (forall n b, good n b -> - win_score T < ChessGame.static T b < win_score T) ->
  forall orc : oracle, quiet orc ->
  forall K : nat, ((K <= 1)%nat \/ ND T good) -> forall k : nat, (k <= K)%nat ->
  node_ok T good Q (static_sat T) orc k.
Proof. exact negamax_refines_closed. Qed.
Print Assumptions C08_negamax_refines.

(* ---- (c) `go depth 1`: exact value nm 1 and a best move attaining it; no hypothesis on keys or on make ---- *)
Theorem C08_depth1_concrete : forall T : Tables.t, ZobristProofs.gen_masks_ok T = true ->
  forall (good : nat -> board -> Prop) (Q : nat), C03_family T good Q ->
  (forall n b, good n b -> sane b = true) ->
  ZobristProofs.keys_rows_ok T = true -> 0 < win_score T ->
  (forall n b, good n b -> - win_score T < ChessGame.static T b < win_score T) ->
  forall orc : oracle, quiet orc ->
  forall (g : go_params) (st : sstate), g_depth g = Some 1%N -> plain_go g ->
  good (1 + S Q)%nat (s_board st) -> (half (s_board st) < 5)%N ->
  root_empty T (s_board st) = false -> inb T 1 (s_board st) ->
  Forall (exact_rec T (static_sat T) (s_board st) 0) (fst (go_full T orc g st)) /\
  (ChessGame.succs T (s_board st) <> [] ->
   exists it, fst (go_full T orc g st) = [it] /\ exact_rec T (static_sat T) (s_board st) 0 it).
Proof. exact depth1_concrete_closed. Qed.
Print Assumptions C08_depth1_concrete.

(* ---- (d) `go depth dd`: every iteration the engine reports is exact for its depth, and when the root has a legal move
   all max(dd,1) iterations run, so the newest record is the exact value nm (max dd 1) with a best move attaining it.
   [exact_rec T stat root d it] :  it_depth it = d+1,  vm_value (it_result it) = nm (d+1) root,  and (root has a move ->
   the record is not aborted and its move m leads to a legal successor q with - nm d q = nm (d+1) root) ---- *)
Theorem C08_go_depth_concrete : forall T : Tables.t, ZobristProofs.gen_masks_ok T = true ->
  forall (good : nat -> board -> Prop) (Q : nat), C03_family T good Q ->
  (forall n b, good n b -> sane b = true) ->
  ZobristProofs.keys_rows_ok T = true -> 0 < win_score T ->
  (forall n b, good n b -> - win_score T < ChessGame.static T b < win_score T) ->
  forall orc : oracle, quiet orc ->
  forall sim : nat -> board -> board -> Prop,
  (forall (r' r : nat) (x y : board), sim r' x y -> (r <= r')%nat ->
     nm board (ChessGame.succs T) (ChessGame.noisy_succs T) (ChessGame.noisy_any T) (static_sat T) (ChessGame.terminal T)
        ChessGame.qmeasure r x =
     nm board (ChessGame.succs T) (ChessGame.noisy_succs T) (ChessGame.noisy_any T) (static_sat T) (ChessGame.terminal T)
        ChessGame.qmeasure r y) ->
  (forall (r r' : nat) (x y : board), (r <= r')%nat -> sim r' x y -> sim r x y) ->
  forall (g : go_params) (st : sstate) (dd : N), g_depth g = Some dd ->
  ((depth_of dd <= 1)%nat \/ ND T good) -> plain_go g ->
  good (depth_of dd + S Q)%nat (s_board st) -> (half (s_board st) + N.of_nat (depth_of dd) < 6)%N ->
  ply_unique board (ChessGame.succs T) (zobrist_hash T) sim (depth_of dd) (s_board st) ->
  root_empty T (s_board st) = false -> inb T (depth_of dd) (s_board st) ->
  Forall (fun it => exists d : nat, (S d <= depth_of dd)%nat /\ exact_rec T (static_sat T) (s_board st) d it)
         (fst (go_full T orc g st)) /\
  (ChessGame.succs T (s_board st) <> [] ->
   exists it rest, fst (go_full T orc g st) = it :: rest /\
                   exact_rec T (static_sat T) (s_board st) (pred (depth_of dd)) it).
Proof. exact go_depth_concrete_closed. Qed.
Print Assumptions C08_go_depth_concrete.

(* the saturated static evaluation is the engine's wherever that is inside (loss_score, win_score) *)
Theorem C08_static_sat : forall (T : Tables.t) (b : board),
  - win_score T < ChessGame.static T b < win_score T -> static_sat T b = ChessGame.static T b.
Proof. exact static_sat_eq. Qed.
Print Assumptions C08_static_sat.

(* the table conditions hold for the tables of the current tree *)
Theorem C08_tables_ok :
  ZobristProofs.gen_masks_ok Ink.Gen.Tables.tables = true /\ ZobristProofs.keys_rows_ok Ink.Gen.Tables.tables = true /\
  0 < win_score Ink.Gen.Tables.tables.
Proof. split; [exact ZobristProofs.gen_gen_masks_ok|split; [exact ZobristProofs.gen_keys_rows_ok|reflexivity]]. Qed.
Print Assumptions C08_tables_ok.

(* ---- the same for the chess family of Proofs/RepetitionInstance.v and the tables of the current tree
   (Proofs/C08Chess.v):   goodC n b  :=  wf b, rights_wf b, ep_free b, is_valid b, half b + n < 4096, ep_wf b, 1 <= full b.
   Discharged: C03_family, good -> sane, the table conditions, the range of the static evaluation (eval_range_ok),
   the range of the mate scores (full-move number + depth < 2^24).  For `go depth 1` nothing else is left. ---- *)
Require Import Ink.Proofs.C08Chess.
Open Scope Z_scope.

Theorem C08_goodC_def : forall n b, goodC n b <->
  (wf b = true /\ MakeUnmake.rights_wf b = true /\ Preserve.ep_free b = true /\ is_valid GT b = true /\
   (half b + N.of_nat n < 4096)%N) /\ ZobristProofs.ep_wf b = true /\ (1 <= full b)%N.
Proof. exact (RepetitionInstance.good_c10_def GT). Qed.
Print Assumptions C08_goodC_def.

Theorem C08_quiescence_chess : forall (fuel : nat) (alpha beta : Z) (zph : N) (st : sstate),
  goodC fuel (s_board st) -> (ChessGame.qmeasure (s_board st) < fuel)%nat -> alpha < beta ->
  vm_value (fst (quiescence GT fuel alpha beta zph st)) =
  clamp alpha beta (Minimax.qs board (ChessGame.noisy_succs GT) (ChessGame.static GT) ChessGame.qmeasure (s_board st)).
Proof. exact quiescence_concrete_chess. Qed.
Print Assumptions C08_quiescence_chess.

Theorem C08_horizon_chess : forall (alpha beta : Z) (zph : N) (st : sstate),
  goodC 130 (s_board st) ->
  alpha < horizon board (ChessGame.succs GT) (ChessGame.noisy_succs GT) (ChessGame.noisy_any GT) (ChessGame.static GT)
            (ChessGame.terminal GT) ChessGame.qmeasure (s_board st) < beta ->
  vm_value (fst (leaf_node GT (turn (s_board st)) alpha beta zph (gen_pseudo GT (s_board st)) st)) =
  horizon board (ChessGame.succs GT) (ChessGame.noisy_succs GT) (ChessGame.noisy_any GT) (ChessGame.static GT)
    (ChessGame.terminal GT) ChessGame.qmeasure (s_board st).
Proof. exact horizon_concrete_chess. Qed.
Print Assumptions C08_horizon_chess.

Theorem C08_static_range_chess : forall b : board, wf b = true ->
  - win_score GT < ChessGame.static GT b < win_score GT.
Proof. exact (static_range GT GT_range). Qed.
Print Assumptions C08_static_range_chess.

Theorem C08_depth1_chess : forall orc : oracle, quiet orc ->
  forall (g : go_params) (st : sstate), g_depth g = Some 1%N -> plain_go g ->
  goodC 131 (s_board st) -> (half (s_board st) < 5)%N -> (full (s_board st) + 1 < 16777216)%N ->
  root_empty GT (s_board st) = false ->
  Forall (exact_rec GT (static_sat GT) (s_board st) 0) (fst (go_full GT orc g st)) /\
  (ChessGame.succs GT (s_board st) <> [] ->
   exists it, fst (go_full GT orc g st) = [it] /\ exact_rec GT (static_sat GT) (s_board st) 0 it).
Proof. exact depth1_concrete_chess. Qed.
Print Assumptions C08_depth1_chess.

Theorem C08_go_depth_chess : forall orc : oracle, quiet orc ->
  forall sim : nat -> board -> board -> Prop,
  (forall (r' r : nat) (x y : board), sim r' x y -> (r <= r')%nat ->
     nm board (ChessGame.succs GT) (ChessGame.noisy_succs GT) (ChessGame.noisy_any GT) (static_sat GT) (ChessGame.terminal GT)
        ChessGame.qmeasure r x =
     nm board (ChessGame.succs GT) (ChessGame.noisy_succs GT) (ChessGame.noisy_any GT) (static_sat GT) (ChessGame.terminal GT)
        ChessGame.qmeasure r y) ->
  (forall (r r' : nat) (x y : board), (r <= r')%nat -> sim r' x y -> sim r x y) ->
  forall (g : go_params) (st : sstate) (dd : N), g_depth g = Some dd ->
  ((depth_of dd <= 1)%nat \/ ND GT goodC) -> plain_go g ->
  goodC (depth_of dd + 130)%nat (s_board st) -> (half (s_board st) + N.of_nat (depth_of dd) < 6)%N ->
  ply_unique board (ChessGame.succs GT) (zobrist_hash GT) sim (depth_of dd) (s_board st) ->
  root_empty GT (s_board st) = false -> (full (s_board st) + N.of_nat (depth_of dd) < 16777216)%N ->
  Forall (fun it => exists d : nat, (S d <= depth_of dd)%nat /\ exact_rec GT (static_sat GT) (s_board st) d it)
         (fst (go_full GT orc g st)) /\
  (ChessGame.succs GT (s_board st) <> [] ->
   exists it rest, fst (go_full GT orc g st) = it :: rest /\
                   exact_rec GT (static_sat GT) (s_board st) (pred (depth_of dd)) it).
Proof. exact go_depth_concrete_chess. Qed.
Print Assumptions C08_go_depth_chess.

(* ---- a closed cross-check by computation: the concrete `go depth 3` and the spec value nm, K+P v K+P ---- *)
Module ExChess.
Import Coq.Strings.String.StringSyntax.
Definition T := Ink.Gen.Tables.tables.
Definition b1 : board := MakeUnmake.board_of_text (Str.lit "4k3/8/8/3p4/4P3/8/8/4K3 w - - 0 1").
Definition st1 : sstate :=
  {| s_board := b1; s_tt := HashTable.new tt_entry 4096; s_killers := []; s_history := History.hempty; s_pv := None;
     s_nm_nodes := 0%N; s_q_nodes := 0%N; s_stop := false; s_quit := false; s_reset_next := false; s_ponder_hit := false;
     s_go := go_default; s_pmoves := []; s_debug := false; s_try_prev_pv := true; s_contempt := contempt T;
     s_out := []; s_drains := O; s_reads := O; s_panicked := false; s_fuel_out := false |}.
Definition orc1 : oracle := {| abort_at := None; poll := 100000%N; inbox := fun _ => []; elapsed := fun _ => 0%N |}.
Definition g3 : go_params :=
  {| g_searchmoves := []; g_wtime := None; g_btime := None; g_winc := None; g_binc := None; g_depth := Some 3%N;
     g_movetime := None |}.
Definition NMc := nm board (ChessGame.succs T) (ChessGame.noisy_succs T) (ChessGame.noisy_any T) (static_sat T)
                     (ChessGame.terminal T) ChessGame.qmeasure.

Example concrete_go_depth_3 :
  map (fun it => (it_depth it, vm_value (it_result it), it_aborted it)) (fst (go_full T orc1 g3 st1)) =
    [(3%N, 125, false); (2%N, 95, false); (1%N, 125, false)] /\
  (NMc 1%nat b1, NMc 2%nat b1, NMc 3%nat b1) = (125, 95, 125) /\
  sane b1 = true /\ quiet orc1 /\ plain_go g3.
Proof.
  split; [vm_compute; reflexivity|]. split; [vm_compute; reflexivity|]. split; [vm_compute; reflexivity|].
  split; [split; reflexivity|repeat split; reflexivity].
Qed.
Print Assumptions concrete_go_depth_3.

(* why ChessGame.noisy_succs is guarded by [sane]: with a bogus e.p. square (accepted by the FEN reader) the capture
   generator emits an "e.p. capture" that takes nothing - the raw list violates both qmeasure_dec and noisy_any_ok *)
Definition bx : board := MakeUnmake.board_of_text (Str.lit "4k3/8/8/3P4/8/8/8/4K3 w - e6 0 1").
Example raw_capture_list_needs_sane :
  sane bx = false /\ ChessGame.noisy_any T bx = false /\
  map ChessGame.qmeasure (noisy_succs_raw T bx) = [ChessGame.qmeasure bx] /\ ChessGame.noisy_succs T bx = [].
Proof. vm_compute. repeat split; reflexivity. Qed.
Print Assumptions raw_capture_list_needs_sane.
End ExChess.

(* C09, last clause: "a following go without a new position command searches the same position as before (... its depth-1
   score equals that of a fresh engine given that position)".  Proved in Proofs/C08History.v (the depth-1 result is the exact
   minimax value whatever the transposition table, killers, pv and the history entries above the root hold); pinned here under C09.
   searches_ok: the commands between the position command and the final go contain no position command and every go runs at most D
   iterations for some D inside the clock range of goodC -- they may be stopped or aborted arbitrarily (any oracle). *)
Require Import Ink.Lib.Str.
Require Import NArith ZArith List Bool Lia.
Import ListNotations.
Require Import Ink.Lib.Bits Ink.Model.Tables Ink.Model.Board Ink.Model.Fen Ink.Model.History Ink.Model.Heuristic Ink.Model.UciTx
        Ink.Model.Search.
Require Import Ink.Spec.Minimax.
Require Import Ink.Proofs.AttackProofs Ink.Proofs.MoveGenProofs.
Require Import Ink.Proofs.SearchProofs Ink.Proofs.SessionProofs Ink.Proofs.ChessGame Ink.Proofs.SearchRefine Ink.Proofs.C08Chess.
Require Import Ink.Proofs.C08Closed Ink.Proofs.C08History.
Open Scope N_scope.

(* 4. C09: "a following go without a new position command ...: its depth-1 score equals that of a fresh engine given
      that position"                                                   *)

(* two engine states with the same board (C09_go_board: a search gives the board back): `go depth 1` reports the same score,
   score_from_value (nm 1 root).  Premises: goodC, a quiet oracle for each depth-1 go itself, plain go, history premise. *)
Theorem C09_depth1_score_state_independent : forall orc1 orc2 : oracle, quiet orc1 -> quiet orc2 ->
  forall (g1 g2 : go_params) (st1 st2 : sstate),
  g_depth g1 = Some 1 -> plain_go g1 -> g_depth g2 = Some 1 -> plain_go g2 ->
  s_board st2 = s_board st1 ->
  goodC 131 (s_board st1) -> full (s_board st1) + 1 < 16777216 -> ChessGame.succs GT (s_board st1) <> [] ->
  history_fresh_below GT (s_history st1) 1 (s_board st1) ->
  history_fresh_below GT (s_history st2) 1 (s_board st1) ->
  exists infos1 i1 m1 p1 infos2 i2 m2 p2,
    go_msgs GT orc1 g1 st1 = infos1 ++ [OInfo i1; OBestmove (Some m1) p1] /\
    go_msgs GT orc2 g2 st2 = infos2 ++ [OInfo i2; OBestmove (Some m2) p2] /\
    forallb is_info infos1 = true /\ forallb is_info infos2 = true /\
    i_depth i1 = Some 1 /\ i_depth i2 = Some 1 /\
    i_score i1 = Some (score_from_value GT
                         (nm board (ChessGame.succs GT) (ChessGame.noisy_succs GT) (ChessGame.noisy_any GT) (static_sat GT) (ChessGame.terminal GT)
        ChessGame.qmeasure 1%nat (s_board st1)) (s_board st1)) /\
    i_score i2 = i_score i1.
Proof. exact depth1_score_state_independent. Qed.
Print Assumptions C09_depth1_score_state_independent.

(* the history premise discharged: engine 1 right after `position fen X`, engine 2 after `position fen X` and ANY searches
   of X (every oracle: stopped, aborted, finished), both with an arbitrary past before the position command *)
Theorem C09_depth1_after_searches : forall orc1 orc2 : oracle, quiet orc1 -> quiet orc2 ->
  forall g1 g2 : go_params, g_depth g1 = Some 1 -> plain_go g1 -> g_depth g2 = Some 1 -> plain_go g2 ->
  forall (f : fen) (stA stB : sstate) (cmds : list cmd),
  let root := board_of_fen f in
  let st1 := set_position_from GT f [] stA in
  let st2 := run_commands GT cmds (set_position_from GT f [] stB) in
  goodC 131 root -> full root + 1 < 16777216 -> ChessGame.succs GT root <> [] ->
  searches_ok GT goodC 129 root cmds (set_position_from GT f [] stB) ->
  (forall (i : nat) (y : board), (1 <= i <= 1)%nat -> at_ply board (ChessGame.succs GT) root i y -> zobrist_hash GT y <> 0) ->
  exists infos1 i1 m1 p1 infos2 i2 m2 p2,
    go_msgs GT orc1 g1 st1 = infos1 ++ [OInfo i1; OBestmove (Some m1) p1] /\
    go_msgs GT orc2 g2 st2 = infos2 ++ [OInfo i2; OBestmove (Some m2) p2] /\
    forallb is_info infos1 = true /\ forallb is_info infos2 = true /\
    i_depth i1 = Some 1 /\ i_depth i2 = Some 1 /\
    i_score i1 = Some (score_from_value GT
                         (nm board (ChessGame.succs GT) (ChessGame.noisy_succs GT) (ChessGame.noisy_any GT) (static_sat GT) (ChessGame.terminal GT)
        ChessGame.qmeasure 1%nat root) root) /\
    i_score i2 = i_score i1.
Proof. exact depth1_after_searches. Qed.
Print Assumptions C09_depth1_after_searches.

(* C19 - Lichess bot-stream payloads decode to the data they carry.
   Statements only; proofs are in Proofs/SerdeProofs.v.  C19_schemas is the obligation that is re-checked
   against the schema regenerated from /repo (Gen/LichessSchema.v, checks/rs2v.py) on every run. *)
Require Import Ink.Lib.Str.
Require Import NArith ZArith List Bool.
Import ListNotations.
Require Import Ink.Model.Json Ink.Model.Serde Ink.Spec.LichessApi Ink.Proofs.SerdeProofs.
Require Import Ink.Gen.LichessSchema.

(* generic: a document that renders the data v according to shape s (keys in any order, any subset of the
   optional fields absent or null, arbitrary unknown keys, escape-free move string) decodes to exactly v *)
Theorem C19_decode : forall s doc v, schema_wf s = true -> conforms s doc v -> decode s doc = Ok v.
Proof. exact C19_decode_thm. Qed.
Print Assumptions C19_decode.

(* a documented shape that passes the compatibility check loses nothing in the implementation's decoder *)
Theorem C19_compat_sound : forall api impl, compatible api impl = true ->
  forall doc v, conforms api doc v -> exists v', decode impl doc = Ok v' /\ carries v v'.
Proof. exact C19_compat_sound_thm. Qed.
Print Assumptions C19_compat_sound.

(* the first offending path, for the log (None = compatible); find_bad is exact: *)
Theorem C19_find_bad_exact : forall a b, find_bad a b = None <-> compat a b = true.
Proof. exact find_bad_none_iff. Qed.
Print Assumptions C19_find_bad_exact.
Definition show_path (o : option (list str)) : option (list String.string) :=
  match o with None => None | Some p => Some (map (fun s => String.string_of_list_ascii (map Ascii.ascii_of_N s)) p) end.
Eval vm_compute in (show_path (find_bad game_stream BotGameState_schema), show_path (find_bad event_stream BotEvent_schema)).

(* THE re-checked obligation: the documented Bot-API shapes vs the schemas generated from the Rust types *)
Theorem C19_schemas :
  compatible game_stream BotGameState_schema = true /\ compatible event_stream BotEvent_schema = true.
Proof. split; vm_compute; reflexivity. Qed.
Print Assumptions C19_schemas.

(* hence, for the real types *)
Theorem C19_game_stream : forall doc v, conforms game_stream doc v ->
  exists v', decode BotGameState_schema doc = Ok v' /\ carries v v'.
Proof. exact (C19_compat_sound_thm _ _ (proj1 C19_schemas)). Qed.
Print Assumptions C19_game_stream.
Theorem C19_event_stream : forall doc v, conforms event_stream doc v ->
  exists v', decode BotEvent_schema doc = Ok v' /\ carries v v'.
Proof. exact (C19_compat_sound_thm _ _ (proj2 C19_schemas)). Qed.
Print Assumptions C19_event_stream.

(* the move string: tokens joined by single spaces come back exactly, in order; "" is no move *)
Theorem C19_moves :
  (forall ms, Forall uci_token ms -> ms <> [] -> space_sv (join [32] ms) = ms) /\ space_sv [] = [].
Proof. exact C19_moves_thm. Qed.
Print Assumptions C19_moves.

(* every well-formed UCI move text [a-h][1-8][a-h][1-8][qrbn]? is a token and is accepted by the model of
   UciMove::from_str, which reads it back as itself *)
Theorem C19_uci_accepts : forall s, uci_wellformed s ->
  uci_move_parse s = Ok s /\ uci_move_ok s = true /\ uci_token s.
Proof. exact uci_accepts. Qed.
Print Assumptions C19_uci_accepts.

(* the move parser never panics and accepts only texts of exactly 4 or 5 characters *)
Theorem C19_uci_total : forall s, uci_move_parse s <> Panic /\
  forall t, uci_move_parse s = Ok t -> (length s = 4 \/ length s = 5)%nat.
Proof. intros s. split; [exact (uci_no_panic s)|exact (uci_ok_length s)]. Qed.
Print Assumptions C19_uci_total.

(* totality of the text layer: the fuelled JSON parser never runs out of fuel *)
Theorem C19_parse_total : forall x, parse_json_res x <> PFuel.
Proof. exact parse_json_fuel. Qed.
Print Assumptions C19_parse_total.

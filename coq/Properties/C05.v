(* C05 - Check, checkmate and stalemate are recognised exactly.
   Model: Model/Board.v (square_in_check, occupancy_in_check, in_check_by_bits, is_valid, is_current_in_check,
   gen_legal; board/src/board.rs) over a table set T that passes the C04 sweep (`tables_attacks_ok T = true`),
   instantiated for the regenerated Gen/Tables.v with Gen/SweepAll.tables_ok.
   Spec: Spec/Rules.v (attacked = SOME piece of the colour attacks the square, forward definition; in_check,
   checkmate, stalemate) on the abstraction Proofs/Abs.v (abs : board -> pos).
   Colours: the model uses WHITE = 0 / BLACK = 1 (`colN`), the spec White / Black (`col_of`).
   `pside b c` is the PlayerState of colour c, `bb_of b c k` its bitboard for kind k, `king_of b c` the king square.
   Only pinned statements here; proofs are in Proofs/AbsProofs.v and Proofs/CheckProofs.v.
   The terminal-position statements are CONDITIONAL on the move-generation equivalence
   (`gen_legal T b = [] <-> legal_moves (abs b) = []`), which is an explicit hypothesis of those theorems. *)
Require Import Ink.Lib.Str.
Require Import NArith ZArith List Bool.
Import ListNotations.
Require Import Ink.Lib.Bits Ink.Model.Tables Ink.Model.Board Ink.Model.Fen Ink.Spec.Attacks Ink.Spec.Rules.
Require Import Ink.Proofs.Abs Ink.Proofs.AttackProofs Ink.Proofs.AbsProofs Ink.Proofs.CheckProofs.
Require Import Ink.Gen.Tables Ink.Gen.SweepAll.
Open Scope N_scope.

(* ================================================================== *)
(* the abstraction of a well-formed board (reused by move generation)  *)
(* ================================================================== *)

Theorem C05_cell_of_iff : forall b sq c k, wf b = true ->
  (cell_of b sq = Some (c, k) <-> N.testbit (bb_of b c k) sq = true).
Proof. exact cell_of_iff. Qed.
Print Assumptions C05_cell_of_iff.

Theorem C05_bb_disjoint : forall b c k c' k' sq, wf b = true -> (c, k) <> (c', k') ->
  N.testbit (bb_of b c k) sq = true -> N.testbit (bb_of b c' k') sq = false.
Proof. exact bb_disjoint. Qed.
Print Assumptions C05_bb_disjoint.

Theorem C05_get_abs : forall b sq, sq < 64 -> get (abs b) (Z.of_N sq) = cell_of b sq.
Proof. exact get_abs. Qed.
Print Assumptions C05_get_abs.

Theorem C05_full_occ : forall b c sq, wf b = true ->
  (N.testbit (full_occ (pside b c)) sq = true <-> exists k, cell_of b sq = Some (c, k)).
Proof. exact full_occ_cell. Qed.
Print Assumptions C05_full_occ.

Theorem C05_occupancy : forall b sq, sq < 64 ->
  N.testbit (N.lor (full_occ (white b)) (full_occ (black b))) sq = negb (empty (abs b) (Z.of_N sq)).
Proof. exact occ_lor_empty. Qed.
Print Assumptions C05_occupancy.

Theorem C05_own_enemy : forall b c sq, wf b = true -> sq < 64 ->
  N.testbit (full_occ (pside b c)) sq = own (abs b) c (Z.of_N sq) /\
  N.testbit (full_occ (pside b (opp c))) sq = enemy (abs b) c (Z.of_N sq).
Proof. exact (fun b c sq Hwf Hsq => conj (full_occ_own b c sq Hwf Hsq) (full_occ_enemy b c sq Hwf Hsq)). Qed.
Print Assumptions C05_own_enemy.

(* exactly one king: its bitboard is one bit, `trailing_zeros` finds it, and it is the king square of the rules *)
Theorem C05_king_square : forall b c, wf b = true ->
  king_of b c = ctz64 (kings (pside b c)) /\ king_of b c < 64 /\
  kings (pside b c) = bit (king_of b c) /\
  king_sq (abs b) c = Some (Z.of_N (king_of b c)).
Proof.
  exact (fun b c Hwf => conj eq_refl (conj (king_of_lt64 b c Hwf) (conj (kings_eq_bit b c Hwf) (king_sq_abs b c Hwf)))).
Qed.
Print Assumptions C05_king_square.

(* ================================================================== *)
(* geometry: every attack pattern is symmetric (spec side)             *)
(* ================================================================== *)

(* what a slide is: the k-th square of the ray, squares up to it on the board, squares before it empty *)
Theorem C05_slide_meaning : forall p n f r df dr t,
  In t (slide p n f r (df, dr)) <->
  exists k, (1 <= k <= Z.of_nat n)%Z /\ t = sq_of (f + k * df) (r + k * dr) /\
    (forall j, (1 <= j <= k)%Z -> on_board (f + j * df) (r + j * dr) = true) /\
    (forall j, (1 <= j < k)%Z -> get p (sq_of (f + j * df) (r + j * dr)) = None).
Proof. exact slide_spec. Qed.
Print Assumptions C05_slide_meaning.

Theorem C05_slide_symmetric : forall p s t d, (0 <= s < 64)%Z -> (0 <= t < 64)%Z ->
  (In t (slide p 7 (fileZ s) (rowZ s) d) <-> In s (slide p 7 (fileZ t) (rowZ t) (negd d))).
Proof. exact slide_sym. Qed.
Print Assumptions C05_slide_symmetric.

Theorem C05_knight_symmetric : forall s t, (0 <= s < 64)%Z -> (0 <= t < 64)%Z ->
  (In t (step_targets (fileZ s) (rowZ s) knight_steps) <-> In s (step_targets (fileZ t) (rowZ t) knight_steps)).
Proof. exact knight_sym. Qed.
Print Assumptions C05_knight_symmetric.

Theorem C05_king_symmetric : forall s t, (0 <= s < 64)%Z -> (0 <= t < 64)%Z ->
  (In t (step_targets (fileZ s) (rowZ s) (orth ++ diag)) <-> In s (step_targets (fileZ t) (rowZ t) (orth ++ diag))).
Proof. exact king_sym. Qed.
Print Assumptions C05_king_symmetric.

(* a pawn of colour c on s attacks t  <->  s lies in the pawn pattern of the OTHER colour around t *)
Theorem C05_pawn_reverse : forall p c s t, (0 <= s < 64)%Z -> (0 <= t < 64)%Z ->
  (In t (attacked_from p s (c, Pawn)) <->
   In s (step_targets (fileZ t) (rowZ t) [((-1)%Z, forward (opp c)); (1%Z, forward (opp c))])).
Proof. exact pawn_attack_sym. Qed.
Print Assumptions C05_pawn_reverse.

(* ================================================================== *)
(* bridge Spec/Attacks.v (N squares, bitboard occupancy) <-> Spec/Rules.v (Z coordinates, mailbox) *)
(* ================================================================== *)

Theorem C05_slide_bridge : forall p occ d sq t,
  (forall s, s < 64 -> N.testbit occ s = negb (empty p (Z.of_N s))) ->
  (In (Z.of_N t) (slide p 7 (fileZ (Z.of_N sq)) (rowZ (Z.of_N sq)) d) <-> N.testbit (ray_attacks [d] sq occ) t = true).
Proof. exact (fun p occ d sq t H => slide_ray_attacks p occ d sq t H). Qed.
Print Assumptions C05_slide_bridge.

Theorem C05_step_bridge : forall ds sq t,
  In (Z.of_N t) (step_targets (fileZ (Z.of_N sq)) (rowZ (Z.of_N sq)) ds) <-> N.testbit (step_attacks ds sq) t = true.
Proof. exact step_bridge. Qed.
Print Assumptions C05_step_bridge.

Theorem C05_direction_lists :
  ORTH = orth /\ DIAG = diag /\ KING_DIRS = orth ++ diag /\ KNIGHT_DIRS = knight_steps /\
  WPAWN_DIRS = [((-1)%Z, forward White); (1%Z, forward White)] /\
  BPAWN_DIRS = [((-1)%Z, forward Black); (1%Z, forward Black)].
Proof. repeat split. Qed.
Print Assumptions C05_direction_lists.

(* ================================================================== *)
(* C05 proper, generic in the table set                                *)
(* ================================================================== *)

(* any square (king square, castling transit squares): the backward bitboard test = forward "attacked" *)
Theorem C05_square_in_check : forall T b c sq, tables_attacks_ok T = true -> wf b = true -> sq < 64 ->
  square_in_check T (colN c) (pside b (opp c)) sq (N.lor (full_occ (white b)) (full_occ (black b)))
  = Rules.attacked (abs b) (Z.of_N sq) (opp c).
Proof. exact (fun T b c sq OK Hwf Hsq => square_in_check_spec T OK b c sq Hwf Hsq). Qed.
Print Assumptions C05_square_in_check.

(* ... for any occupancy word that agrees with the position on the 64 squares *)
Theorem C05_square_in_check_occ : forall T b c sq occ, tables_attacks_ok T = true -> wf b = true -> sq < 64 ->
  (forall s, s < 64 -> N.testbit occ s = negb (empty (abs b) (Z.of_N s))) ->
  square_in_check T (colN c) (pside b (opp c)) sq occ = Rules.attacked (abs b) (Z.of_N sq) (opp c).
Proof. exact (fun T b c sq occ OK Hwf Hsq Hocc => square_in_check_occ T OK b c sq occ Hwf Hsq Hocc). Qed.
Print Assumptions C05_square_in_check_occ.

(* ... and with the occupancy exactly as the move generator passes it (active | passive) *)
Theorem C05_square_in_check_active : forall T b c sq, tables_attacks_ok T = true -> wf b = true -> sq < 64 ->
  square_in_check T (colN c) (pside b (opp c)) sq (N.lor (full_occ (active b)) (full_occ (passive b)))
  = Rules.attacked (abs b) (Z.of_N sq) (opp c).
Proof. exact (fun T b c sq OK Hwf Hsq => square_in_check_active T OK b c sq Hwf Hsq). Qed.
Print Assumptions C05_square_in_check_active.

Theorem C05_occupancy_in_check : forall T b c set, tables_attacks_ok T = true -> wf b = true -> set < 2 ^ 64 ->
  occupancy_in_check T (colN c) (pside b (opp c)) (N.lor (full_occ (white b)) (full_occ (black b))) set
  = existsb (fun sq => Rules.attacked (abs b) (Z.of_N sq) (opp c)) (bits_of set).
Proof. exact (fun T b c set OK Hwf Hset => occupancy_in_check_spec T OK b c set Hwf Hset). Qed.
Print Assumptions C05_occupancy_in_check.

Theorem C05_in_check : forall T b c, tables_attacks_ok T = true -> wf b = true ->
  in_check_by_bits T b (colN c) = Rules.in_check (abs b) c.
Proof. exact (fun T b c OK Hwf => in_check_spec T OK b c Hwf). Qed.
Print Assumptions C05_in_check.

Theorem C05_in_check_N : forall T b n, tables_attacks_ok T = true -> wf b = true -> n < 2 ->
  in_check_by_bits T b n = Rules.in_check (abs b) (col_of n).
Proof. exact (fun T b n OK Hwf Hn => in_check_spec_N T OK b n Hwf Hn). Qed.
Print Assumptions C05_in_check_N.

(* valid = the side that just moved did not leave its own king attacked *)
Theorem C05_is_valid : forall T b, tables_attacks_ok T = true -> wf b = true ->
  is_valid T b = negb (Rules.in_check (abs b) (opp (to_move (abs b)))).
Proof. exact (fun T b OK Hwf => is_valid_spec T OK b Hwf). Qed.
Print Assumptions C05_is_valid.

Theorem C05_current : forall T b, tables_attacks_ok T = true -> wf b = true ->
  is_current_in_check T b = Rules.in_check (abs b) (to_move (abs b)).
Proof. exact (fun T b OK Hwf => current_in_check_spec T OK b Hwf). Qed.
Print Assumptions C05_current.

(* terminal positions; Hgen is the move-generation equivalence, proved elsewhere, stated explicitly *)
Theorem C05_terminal : forall T b, tables_attacks_ok T = true -> wf b = true ->
  (gen_legal T b = [] <-> Rules.legal_moves (abs b) = []) ->
  (Rules.checkmate (abs b) = true <-> gen_legal T b = [] /\ is_current_in_check T b = true) /\
  (Rules.stalemate (abs b) = true <-> gen_legal T b = [] /\ is_current_in_check T b = false) /\
  (gen_legal T b = [] <-> Rules.checkmate (abs b) = true \/ Rules.stalemate (abs b) = true) /\
  ~ (Rules.checkmate (abs b) = true /\ Rules.stalemate (abs b) = true).
Proof.
  exact (fun T b OK Hwf Hgen =>
    conj (terminal_checkmate T OK b Hwf Hgen) (conj (terminal_stalemate T OK b Hwf Hgen)
      (conj (terminal_no_moves T OK b Hwf Hgen) (terminal_exclusive (abs b))))).
Qed.
Print Assumptions C05_terminal.

(* ================================================================== *)
(* the same for the current tables of /repo                            *)
(* ================================================================== *)

Theorem C05_tables_square_in_check : forall b c sq, wf b = true -> sq < 64 ->
  square_in_check tables (colN c) (pside b (opp c)) sq (N.lor (full_occ (white b)) (full_occ (black b)))
  = Rules.attacked (abs b) (Z.of_N sq) (opp c).
Proof. exact (fun b c sq => C05_square_in_check tables b c sq tables_ok). Qed.
Print Assumptions C05_tables_square_in_check.

Theorem C05_tables_in_check : forall b c, wf b = true ->
  in_check_by_bits tables b (colN c) = Rules.in_check (abs b) c.
Proof. exact (fun b c => C05_in_check tables b c tables_ok). Qed.
Print Assumptions C05_tables_in_check.

Theorem C05_tables_is_valid : forall b, wf b = true ->
  is_valid tables b = negb (Rules.in_check (abs b) (opp (to_move (abs b)))).
Proof. exact (fun b => C05_is_valid tables b tables_ok). Qed.
Print Assumptions C05_tables_is_valid.

Theorem C05_tables_current : forall b, wf b = true ->
  is_current_in_check tables b = Rules.in_check (abs b) (to_move (abs b)).
Proof. exact (fun b => C05_current tables b tables_ok). Qed.
Print Assumptions C05_tables_current.

Theorem C05_tables_terminal : forall b, wf b = true ->
  (gen_legal tables b = [] <-> Rules.legal_moves (abs b) = []) ->
  (Rules.checkmate (abs b) = true <-> gen_legal tables b = [] /\ is_current_in_check tables b = true) /\
  (Rules.stalemate (abs b) = true <-> gen_legal tables b = [] /\ is_current_in_check tables b = false) /\
  (gen_legal tables b = [] <-> Rules.checkmate (abs b) = true \/ Rules.stalemate (abs b) = true) /\
  ~ (Rules.checkmate (abs b) = true /\ Rules.stalemate (abs b) = true).
Proof. exact (fun b => C05_terminal tables b tables_ok). Qed.
Print Assumptions C05_tables_terminal.

(* ================================================================== *)
(* examples (vm_compute on the current tables)                         *)
(* ================================================================== *)

(* the squares from which colour c attacks t, by the rules *)
Definition attackers (p : pos) (t : Z) (c : color) : list Z :=
  filter (fun s => match get p s with
                   | Some pc => color_eqb (fst pc) c && zmem t (attacked_from p s pc)
                   | None => false end) squares.

(* (wf, model: white in check, black in check, is_valid, is_current_in_check; rules: white in check, black in check) *)
Definition observe (fen : str) :=
  match from_fen_string fen with
  | inr b => Some (wf b, in_check_by_bits tables b WHITE, in_check_by_bits tables b BLACK,
                   is_valid tables b, is_current_in_check tables b,
                   Rules.in_check (abs b) White, Rules.in_check (abs b) Black)
  | inl _ => None
  end.

(* double check: rook e8 and knight f3 both attack the white king on e1 *)
Example C05_ex_double_check :
  observe (lit "4r1k1/8/8/8/8/5n2/8/4K3 w - - 0 1") = Some (true, true, false, true, true, true, false) /\
  match from_fen_string (lit "4r1k1/8/8/8/8/5n2/8/4K3 w - - 0 1") with
  | inr b => attackers (abs b) 60 Black = [4; 45]%Z
  | inl _ => False end.
Proof. split; vm_compute; reflexivity. Qed.

(* pawn checks: a black pawn on d5 checks the white king on e4, a black pawn on d3 (the swapped pattern) does not *)
Example C05_ex_pawn_check_white :
  observe (lit "4k3/8/8/3p4/4K3/8/8/8 w - - 0 1") = Some (true, true, false, true, true, true, false) /\
  observe (lit "4k3/8/8/8/4K3/3p4/8/8 w - - 0 1") = Some (true, false, false, true, false, false, false).
Proof. split; vm_compute; reflexivity. Qed.

(* a white pawn on d4 checks the black king on e5, a white pawn on d6 does not *)
Example C05_ex_pawn_check_black :
  observe (lit "8/8/8/4k3/3P4/8/8/4K3 b - - 0 1") = Some (true, false, true, true, true, false, true) /\
  observe (lit "8/8/3P4/4k3/8/8/8/4K3 b - - 0 1") = Some (true, false, false, true, false, false, false).
Proof. split; vm_compute; reflexivity. Qed.

(* the side NOT to move (White) is in check by the rook on h1: the position is not valid *)
Example C05_ex_not_valid :
  observe (lit "4k3/8/8/8/8/8/8/4K2r b - - 0 1") = Some (true, true, false, false, false, true, false).
Proof. vm_compute. reflexivity. Qed.

(* a blocked slider gives no check: the bishop on e2 shields the king from the rook on e8 *)
Example C05_ex_blocked :
  observe (lit "4r1k1/8/8/8/8/8/4B3/4K3 w - - 0 1") = Some (true, false, false, true, false, false, false).
Proof. vm_compute. reflexivity. Qed.

(* the two pawn tables cannot be swapped: a white pawn on e4 (36) attacks d5 (27), but e4 is NOT in the WHITE
   pattern around d5 - only in the BLACK one, which is the one the code reads for a BLACK king on d5 *)
Example C05_ex_pawn_tables_not_swappable :
  let p := {| cells := []; to_move := White; wk := false; wq := false; bk := false; bq := false;
              epsq := None; halfc := 0; fullc := 0 |} in
  In 27%Z (attacked_from p 36 (White, Pawn)) /\
  ~ In 36%Z (step_targets (fileZ 27) (rowZ 27) [((-1)%Z, forward White); (1%Z, forward White)]) /\
  In 36%Z (step_targets (fileZ 27) (rowZ 27) [((-1)%Z, forward Black); (1%Z, forward Black)]).
Proof.
  split; [cbv; tauto|]. split; [|cbv; tauto]. cbv. intros [H|[H|[]]]; discriminate.
Qed.

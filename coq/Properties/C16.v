(* C16 - The engine's output stream is well-formed and self-consistent (output side).
   "Every line the engine process writes in response to a command is a syntactically valid UCI engine-to-GUI
    message (only the start-up banner is free text)."
   Spec:  Spec/UciOut.v      the engine-to-GUI grammar: parser `parse_engine_line`, recogniser `engine_line`
   Model: Model/ConsoleTx.v  `ConsoleUciTx` (uci/src/uci/console.rs): `tx` / `render`, one `tx_msg` per `UciTx` call
   Side conditions and intended reading of a call: Proofs/ConsoleOk.v (`msg_ok`, `abstract_of`).
   Only pinned statements here; proofs are in Proofs/ConsoleProofs.v.
   The session-level claims of C16 (monotone depth/nodes/time, legal PVs, bestmove/ponder = head of the last PV) are
   checked on real engine output with `parse_engine_line` (family spec-engineline, Driver/RunUciOut.v). *)
Require Import Ink.Lib.Str.
Require Import NArith ZArith List Bool.
Import ListNotations.
Require Import Ink.Spec.UciOut Ink.Model.ConsoleTx Ink.Proofs.ConsoleOk Ink.Proofs.ConsoleProofs.
Open Scope N_scope.

(* ---- every rendered message that satisfies the side conditions is a valid engine-to-GUI line ---- *)
Theorem C16_render_valid : forall m s, msg_ok m = true -> render m = Some s -> engine_line s = true.
Proof. exact render_valid. Qed.
Print Assumptions C16_render_valid.

(* ---- and the grammar reads back exactly the message that was meant (all fields, in the emitted order) ---- *)
Theorem C16_parse_render : forall m s, msg_ok m = true -> render m = Some s ->
  parse_engine_line s = Some (abstract_of m).
Proof. exact parse_render. Qed.
Print Assumptions C16_parse_render.

(* the two big cases on their own *)
Theorem C16_info_parse : forall i, info_ok i = true ->
  parse_engine_line (render_info i) = Some (OInfo (abstract_info i)).
Proof. exact info_parse. Qed.
Print Assumptions C16_info_parse.

Theorem C16_bestmove_parse : forall b p s, opt_ok mv_ok b = true -> opt_ok mv_ok p = true ->
  render (BestMove b p) = Some s ->
  parse_engine_line s = Some (OBestMove (option_map show_move b) (option_map show_move p)).
Proof. intros b p s Hb Hp. exact (bestmove_parse b p Hb Hp s). Qed.
Print Assumptions C16_bestmove_parse.

(* what the session checks read off an info line: depth / nodes / time / pv / score are the rendered ones *)
Theorem C16_info_readback : forall i s, info_ok i = true -> render (Info i) = Some s ->
  exists items, parse_engine_line s = Some (OInfo items) /\
    info_depth items = i_depth i /\ info_nodes items = i_nodes i /\ info_time items = i_time i /\
    info_pv items = option_map (map show_move) (i_principal_variation i) /\
    info_score items = option_map abstract_score (i_score i).
Proof. exact info_readback. Qed.
Print Assumptions C16_info_readback.

(* a message satisfying the side conditions does not hit the assert! of id_name / id_author *)
Theorem C16_ok_no_panic : forall m, msg_ok m = true -> tx m <> Panic.
Proof. exact ok_no_panic. Qed.
Print Assumptions C16_ok_no_panic.

(* ---- the Info values built by search.rs satisfy the side conditions ---- *)
Theorem C16_engine_infos_ok :
  (forall depth time nodes pv sc hash_full nps dbg,
     hash_full <= 1000 -> opt_ok mvs_ok pv = true -> opt_ok single_line dbg = true ->
     msg_ok (Info (engine_iteration_info depth time nodes pv sc hash_full nps dbg)) = true) /\
  (forall time nodes hash_full nps,
     hash_full <= 1000 -> msg_ok (Info (engine_periodic_info time nodes hash_full nps)) = true).
Proof. exact engine_infos_ok. Qed.
Print Assumptions C16_engine_infos_ok.

(* ---- hence everything the engine sends is a valid line ---- *)
Theorem C16_engine_output_valid : forall m s, engine_emits m -> render m = Some s -> engine_line s = true.
Proof. exact engine_output_valid. Qed.
Print Assumptions C16_engine_output_valid.

(* ---- calls the engine must never make: they violate msg_ok and the rendered line is NOT valid ---- *)
Definition renders_invalid (m : tx_msg) (line : str) : Prop :=
  msg_ok m = false /\ render m = Some line /\ engine_line line = false.

Definition with_pv (ms : list mv) : info_record :=
  {| i_depth := Some 3; i_selective_depth := None; i_time := None; i_nodes := None; i_principal_variation := Some ms;
     i_multi_pv := None; i_score := None; i_current_move := None; i_current_move_number := None; i_hash_full := None;
     i_nps := None; i_table_hits := None; i_shredder_table_hits := None; i_cpu_load := None; i_string := None;
     i_refutation := None; i_current_line := None |}.
Definition only_pv (ms : list mv) : info_record :=
  {| i_depth := None; i_selective_depth := None; i_time := None; i_nodes := None; i_principal_variation := Some ms;
     i_multi_pv := None; i_score := None; i_current_move := None; i_current_move_number := None; i_hash_full := None;
     i_nps := None; i_table_hits := None; i_shredder_table_hits := None; i_cpu_load := None; i_string := None;
     i_refutation := None; i_current_line := None |}.
Definition only_hashfull (n : N) : info_record :=
  {| i_depth := None; i_selective_depth := None; i_time := None; i_nodes := None; i_principal_variation := None;
     i_multi_pv := None; i_score := None; i_current_move := None; i_current_move_number := None; i_hash_full := Some n;
     i_nps := None; i_table_hits := None; i_shredder_table_hits := None; i_cpu_load := None; i_string := None;
     i_refutation := None; i_current_line := None |}.
Definition only_string (s : str) : info_record :=
  {| i_depth := None; i_selective_depth := None; i_time := None; i_nodes := None; i_principal_variation := None;
     i_multi_pv := None; i_score := None; i_current_move := None; i_current_move_number := None; i_hash_full := None;
     i_nps := None; i_table_hits := None; i_shredder_table_hits := None; i_cpu_load := None; i_string := Some s;
     i_refutation := None; i_current_line := None |}.
Definition only_refutation (ms : list mv) : info_record :=
  {| i_depth := None; i_selective_depth := None; i_time := None; i_nodes := None; i_principal_variation := None;
     i_multi_pv := None; i_score := None; i_current_move := None; i_current_move_number := None; i_hash_full := None;
     i_nps := None; i_table_hits := None; i_shredder_table_hits := None; i_cpu_load := None; i_string := None;
     i_refutation := Some ms; i_current_line := None |}.
Definition only_currline (n : N) (ms : list mv) : info_record :=
  {| i_depth := None; i_selective_depth := None; i_time := None; i_nodes := None; i_principal_variation := None;
     i_multi_pv := None; i_score := None; i_current_move := None; i_current_move_number := None; i_hash_full := None;
     i_nps := None; i_table_hits := None; i_shredder_table_hits := None; i_cpu_load := None; i_string := None;
     i_refutation := None; i_current_line := Some (n, ms) |}.
Definition only_currmove (m : mv) : info_record :=
  {| i_depth := None; i_selective_depth := None; i_time := None; i_nodes := None; i_principal_variation := None;
     i_multi_pv := None; i_score := None; i_current_move := Some m; i_current_move_number := None; i_hash_full := None;
     i_nps := None; i_table_hits := None; i_shredder_table_hits := None; i_cpu_load := None; i_string := None;
     i_refutation := None; i_current_line := None |}.

(* a7 = 8, a8 = 0, e2 = 52, e4 = 36 *)
Example C16_render_invalid_examples :
  (* Info::EMPTY: the bare word `info` *)
  renders_invalid (Info info_empty) (lit "info") /\
  (* Some(vec![]) as principal variation: `pv` without a move, and a trailing space *)
  renders_invalid (Info (only_pv [])) (lit "info pv ") /\
  renders_invalid (Info (with_pv [])) (lit "info depth 3 pv ") /\
  renders_invalid (Info (only_refutation [])) (lit "info refutation ") /\
  renders_invalid (Info (only_currline 1 [])) (lit "info currline 1 ") /\
  (* hash_full is not clamped *)
  renders_invalid (Info (only_hashfull 1001)) (lit "info hashfull 1001") /\
  (* UciMove::promote_to may hold any Piece *)
  renders_invalid (Info (only_currmove (8, 0, Some 6))) (lit "info currmove a7a8k") /\
  renders_invalid (BestMove (Some (8, 0, Some 1)) None) (lit "bestmove a7a8p") /\
  (* texts are copied verbatim: a line feed splits the line *)
  renders_invalid (Info (only_string (lit "a" ++ [10] ++ lit "b"))) (lit "info string a" ++ [10] ++ lit "b") /\
  renders_invalid (IdName (lit "a" ++ [10] ++ lit "b")) (lit "id name a" ++ [10] ++ lit "b") /\
  (* only the empty string is refused by the assert!, not a blank one *)
  renders_invalid (IdName (lit " ")) (lit "id name  ") /\
  (* options: empty name, empty default (the protocol wants <empty>), the word `type` inside a name *)
  renders_invalid (OptionButton []) (lit "option name  type button") /\
  renders_invalid (OptionString (lit "P") []) (lit "option name P type string default") /\
  renders_invalid (OptionSpin (lit "my type") 1 0 9) (lit "option name my type type spin default 1 min 0 max 9") /\
  renders_invalid (OptionCombo (lit "Style") (lit "Normal") [[]]) (lit "option name Style type combo default Normal var").
Proof. vm_compute. repeat split. Qed.

(* the assert! of id_name / id_author *)
Example C16_empty_id_panics : tx (IdName []) = Panic /\ tx (IdAuthor []) = Panic /\ render (Debug (lit "x")) = None.
Proof. vm_compute. repeat split. Qed.

(* ---- non-vacuity: concrete engine lines, rendered by the model, parsed back by the grammar ---- *)
Definition demo_info : info_record :=
  engine_iteration_info 3 12 77 (Some [(52, 36, None); (12, 28, None)]) (Some (Centipawn (-20))) 5 9 None.

Example C16_demo_info :
  render (Info demo_info) = Some (lit "info depth 3 time 12 nodes 77 pv e2e4 e7e5 score cp -20 hashfull 5 nps 9")
  /\ parse_engine_line (lit "info depth 3 time 12 nodes 77 pv e2e4 e7e5 score cp -20 hashfull 5 nps 9")
     = Some (OInfo [IDepth 3; ITime 12; INodes 77; IPv [lit "e2e4"; lit "e7e5"]; IScore (SCp (-20) None); IHashFull 5; INps 9])
  /\ msg_ok (Info demo_info) = true.
Proof. vm_compute. repeat split. Qed.

(* the keys may come in any order; a key may not repeat; `string` swallows the rest of the line *)
Example C16_demo_grammar :
  engine_line (lit "info score mate -3 upperbound nodes 5 depth 2") = true /\
  engine_line (lit "info depth 1 depth 2") = false /\
  engine_line (lit "info depth 1  nodes 2") = false /\
  engine_line (lit "info nodes 2 ") = false /\
  engine_line (lit "info depth") = false /\
  engine_line (lit "info pv e2e4 e7e8k") = false /\
  engine_line (lit "info currline e2e4 e7e5") = true /\
  engine_line (lit "info currline 2 e2e4") = true /\
  parse_engine_line (lit "info depth 1 string depth 2 pv xyz") = Some (OInfo [IDepth 1; IString (lit "depth 2 pv xyz")]) /\
  parse_engine_line (lit "bestmove e7e8q ponder a2a1") = Some (OBestMove (Some (lit "e7e8q")) (Some (lit "a2a1"))) /\
  parse_engine_line (lit "bestmove 0000") = Some (OBestMove None None) /\
  engine_line (lit "bestmove") = false /\
  engine_line (lit "bestmove E2E4") = false /\
  engine_line (lit "id name Inkayaku") = true /\
  engine_line (lit "id name") = false /\
  engine_line (lit "registration checking") = true /\
  engine_line (lit "registration maybe") = false /\
  engine_line (lit "option name Clear Hash type button") = true /\
  engine_line (lit "option name Style type combo default Normal var Solid var Normal var Risky") = true /\
  engine_line (lit "option name Hash type spin default 1 min 1 max x") = false /\
  engine_line (lit "Inkayaku by Marvin Kuhnke") = false.
Proof. vm_compute. repeat split. Qed.

(* ================================================================================================================
   SESSION LEVEL: the messages ONE `go` emits, on the model of the search driver (Model/Search.v).
   "Within one search the reported depth, node count and time never decrease, every reported principal variation
    is a legal line from the searched position, and the announced bestmove and ponder move are the first and second
    move of the last reported principal variation."
   Proofs: Proofs/SessionProofs.v, Proofs/HashFullProofs.v.
     go_msgs T orc g st          the messages emitted by `go` (s_out after minus s_out before), OLDEST FIRST
     field_values f msgs         the values of field f over the `info` messages that carry it, in order
     last_pv msgs                the principal variation of the last `info` message that carries one
   From here on `OInfo`, `info`, `i_depth`, ... are those of Model/UciTx.v; the console side is written qualified.
   ================================================================================================================ *)
Require Import Sorted.
Require Import Ink.Model.Tables Ink.Model.Board Ink.Model.UciTx Ink.Model.Search.
Require Import Ink.Proofs.SearchProofs Ink.Proofs.HashFullProofs Ink.Proofs.ChessInstance Ink.Proofs.SessionProofs.

(* ---- nodes: for EVERY oracle (abort point, inbox, clock) ---- *)
Theorem C16_nodes_monotone : forall T orc g st,
  StronglySorted N.le (field_values i_nodes (go_msgs T orc g st)).
Proof. exact nodes_monotone_thm. Qed.
Print Assumptions C16_nodes_monotone.

(* ---- depth (the periodic infos carry none; an aborted iteration reports the previous depth): every oracle ---- *)
Theorem C16_depth_monotone : forall T orc g st,
  StronglySorted N.le (field_values i_depth (go_msgs T orc g st)).
Proof. exact depth_monotone_thm. Qed.
Print Assumptions C16_depth_monotone.

(* ---- time.  The `info` record of the model stores the clock reading (nanoseconds; only the renderer of
   Model/UciTx.v prints it as `T`), so the theorem is about the stored readings.
   [clock_mono orc]: the k-th reading `elapsed orc k` is non-decreasing in k. ---- *)
Theorem C16_time_monotone : forall T orc g st,
  (forall i j, (i <= j)%nat -> elapsed orc i <= elapsed orc j) ->
  StronglySorted N.le (field_values i_time (go_msgs T orc g st)).
Proof. exact time_monotone_thm. Qed.
Print Assumptions C16_time_monotone.

(* without any hypothesis on the clock: the reported times are readings of the clock with strictly increasing indices *)
Theorem C16_time_readings : forall T orc g st,
  exists ks, field_values i_time (go_msgs T orc g st) = map (elapsed orc) ks /\ StronglySorted lt ks.
Proof. exact time_readings_thm. Qed.
Print Assumptions C16_time_readings.

(* ---- the output is `info* bestmove`; bestmove / ponder are the first / second move of the last reported
   principal variation (`None` = the pv has one move only); without any reported pv: `bestmove 0000`.  Every oracle.
   (This is the fixed defect D18.) ---- *)
Theorem C16_bestmove_is_pv_head : forall T orc g st,
  exists infos best ponder,
    go_msgs T orc g st = infos ++ [OBestmove best ponder] /\ forallb is_info infos = true /\
    match last_pv infos with
    | Some pv => best = nth_error pv 0 /\ ponder = nth_error pv 1 /\ best <> None
    | None => best = None /\ ponder = None
    end.
Proof. exact bestmove_is_pv_head_thm. Qed.
Print Assumptions C16_bestmove_is_pv_head.

(* ---- every reported principal variation is a non-empty LEGAL LINE from the searched position.
   [line_legal T b l]: each move is generated (gen_pseudo) in the position reached so far and its `make` is valid.
   Hypotheses: C03_family (make/unmake inverse on the boards of the search, as for C09/C07), and
   [key_family T K]: K n zh b = "the main search may visit board b under table key zh with n plies of draft left" is
   closed under the search's own key update, monotone in the draft, and has NO COLLISION (one key, one board);
   K holds at the root for its Zobrist hash.  [C16_key_family_of_visited] below gives the intended instance. ---- *)
Theorem C16_pv_legal : forall T good Q, C03_family T good Q -> forall K, key_family T K ->
  forall orc g st D, (length (fst (go_full T orc g st)) <= D)%nat -> good (D + S Q)%nat (s_board st) ->
  K D (zobrist_hash T (s_board st)) (s_board st) ->
  forall i pv, In (OInfo i) (go_msgs T orc g st) -> i_pv i = Some pv ->
  exists line, pv = map uci_of_move line /\ line <> [] /\ line_legal T (s_board st) line.
Proof. exact pv_legal_thm. Qed.
Print Assumptions C16_pv_legal.

Theorem C16_key_family_of_visited : forall T (V : nat -> board -> Prop),
  ZobristProofs.keys_rows_ok T = true -> ZobristProofs.gen_masks_ok T = true ->
  (forall n b, V n b -> wf b = true /\ ZobristProofs.castle_wf b = true /\ ZobristProofs.ep_wf b = true) ->
  (forall n b m b', V (S n) b -> In m (gen_pseudo T b) -> make b m = Some b' -> is_valid T b' = true -> V n b') ->
  (forall n b, V (S n) b -> V n b) ->
  (forall n1 n2 b1 b2, V n1 b1 -> V n2 b2 -> zobrist_hash T b1 = zobrist_hash T b2 -> b1 = b2) ->
  key_family T (fun n zh b => zh = zobrist_hash T b /\ V n b).
Proof. exact key_family_of_visited. Qed.
Print Assumptions C16_key_family_of_visited.

(* ---- the two renderers.  Model/UciTx.v prints the run-time measurements as placeholders (time `T`, nps `X`,
   debug statistics `S`), so `UciTx.render_info i = ConsoleTx.render_info (to_console nps dbg i)` cannot hold
   literally; both are the SAME function [render_info_with] of the three placeholder texts ... ---- *)
Theorem C16_render_agrees : forall nps dbg i,
  match i_pv i with Some l => forallb umove_ok l = true | None => True end ->
  UciTx.render_info i = render_info_with (fun _ => lit "T") (lit "X") (lit "S") i /\
  ConsoleTx.render_info (to_console nps dbg i) = render_info_with (fun ns => show_N (ns / 1000000)) (show_N nps) dbg i.
Proof. intros nps dbg i H. split; [exact (uci_render_with i)|exact (console_render_with nps dbg i H)]. Qed.
Print Assumptions C16_render_agrees.

(* ... and on the fields that are values of the model the equation is exact *)
Theorem C16_render_exact : forall nps dbg i,
  i_time i = None -> i_nps i = false -> i_string i = false ->
  match i_pv i with Some l => forallb umove_ok l = true | None => True end ->
  ConsoleTx.render_info (to_console nps dbg i) = UciTx.render_info i.
Proof. exact render_info_exact. Qed.
Print Assumptions C16_render_exact.

Theorem C16_render_bestmove_agrees : forall b p,
  ConsoleOk.opt_ok umove_ok b = true -> ConsoleOk.opt_ok umove_ok p = true ->
  ConsoleTx.render (ConsoleTx.BestMove (option_map to_mv b) (option_map to_mv p)) = Some (UciTx.render_bestmove b p).
Proof. exact render_bestmove_agree. Qed.
Print Assumptions C16_render_bestmove_agrees.

(* ---- hashfull is a permill value while the table is within its capacity (C18), for every capacity ---- *)
Theorem C16_hash_full_le_1000 : forall len cap, len <= cap -> hash_full len cap <= 1000.
Proof. exact hash_full_bound. Qed.
Print Assumptions C16_hash_full_le_1000.

(* ---- the output of one go is a list of `info` messages followed by exactly one `bestmove`; every message is a
   `UciTx` call that satisfies the side conditions of the renderer theorems ([msg_ok]), whatever the node rate and
   the (single-line) debug text are; hence every line written is in the UCI output grammar.
   Extra hypotheses: the table checks of the chess instance, the start position satisfies the clock-free part of
   [good_chess] ([pos_ok]; implied by good_chess), the table was created with at most the printed capacity. ---- *)
Theorem C16_one_go_output_shape : forall T good Q, C03_family T good Q -> forall K, key_family T K ->
  tables_chess_ok T = true ->
  forall orc g st D, (length (fst (go_full T orc g st)) <= D)%nat -> good (D + S Q)%nat (s_board st) ->
  K D (zobrist_hash T (s_board st)) (s_board st) -> pos_ok T (s_board st) ->
  N.of_nat (HashTable.cap tt_entry (s_tt st)) <= tt_capacity T ->
  exists infos best ponder,
    go_msgs T orc g st = infos ++ [OBestmove best ponder] /\ forallb is_info infos = true /\
    forall m, In m (go_msgs T orc g st) -> forall nps dbg, UciOut.single_line dbg = true ->
      exists tm line, to_tx nps dbg m = Some tm /\ ConsoleOk.msg_ok tm = true /\
                      ConsoleTx.render tm = Some line /\ UciOut.engine_line line = true.
Proof. exact one_go_output_shape_thm. Qed.
Print Assumptions C16_one_go_output_shape.

(* ---- non-vacuity: two concrete sessions on the regenerated tables, from the start position.
   (a) `go depth 2`, nothing happens: two iterations.
   (b) `go depth 3`, polling every 25 nodes, abort hook at node 75 (inside the second iteration): the first iteration
       is kept, two periodic infos follow, the aborted second iteration reports depth 1 and the kept line again, and
       the answer is the head of that line, without a ponder move because the line has one move. ---- *)
Require Ink.Gen.Tables.
Definition c16_go (d : N) : go_params :=
  {| g_searchmoves := []; g_wtime := None; g_btime := None; g_winc := None; g_binc := None; g_depth := Some d; g_movetime := None |}.
Definition c16_orc_a : oracle :=
  {| abort_at := None; poll := 100000; inbox := fun _ => []; elapsed := fun k => N.of_nat k * 1000000 |}.
Definition c16_orc_b : oracle :=
  {| abort_at := Some (75, 1); poll := 25; inbox := fun _ => []; elapsed := fun k => N.of_nat k * 1500000 |}.
Definition c16_lines (msgs : list omsg) : list (option str) :=
  map (fun m => match to_tx 1234 [] m with Some tm => ConsoleTx.render tm | None => None end) msgs.

Example C16_demo_session_a :
  let msgs := go_msgs Ink.Gen.Tables.tables c16_orc_a (c16_go 2) (init_state Ink.Gen.Tables.tables) in
  field_values i_depth msgs = [1; 2] /\ field_values i_nodes msgs = [21; 90] /\
  field_values i_time msgs = [0; 2000000] /\ last_pv msgs = Some [(57, 42, 0); (1, 18, 0)] /\
  map render msgs =
    [Some (lit "info depth 1 time T nodes 21 pv b1c3 score cp 50 hashfull 0 nps X");
     Some (lit "info depth 2 time T nodes 90 pv b1c3 b8c6 score cp 0 hashfull 0 nps X");
     Some (lit "bestmove b1c3 ponder b8c6")] /\
  c16_lines msgs =
    [Some (lit "info depth 1 time 0 nodes 21 pv b1c3 score cp 50 hashfull 0 nps 1234");
     Some (lit "info depth 2 time 2 nodes 90 pv b1c3 b8c6 score cp 0 hashfull 0 nps 1234");
     Some (lit "bestmove b1c3 ponder b8c6")].
Proof. vm_compute. repeat split. Qed.

Example C16_demo_session_b :
  let msgs := go_msgs Ink.Gen.Tables.tables c16_orc_b (c16_go 3) (init_state Ink.Gen.Tables.tables) in
  field_values i_depth msgs = [1; 1] /\ field_values i_nodes msgs = [21; 25; 50; 79] /\
  field_values i_time msgs = [0; 3000000; 6000000; 9000000] /\ last_pv msgs = Some [(57, 42, 0)] /\
  c16_lines msgs =
    [Some (lit "info depth 1 time 0 nodes 21 pv b1c3 score cp 50 hashfull 0 nps 1234");
     Some (lit "info time 3 nodes 25 hashfull 0 nps 1234");
     Some (lit "info time 6 nodes 50 hashfull 0 nps 1234");
     Some (lit "info depth 1 time 9 nodes 79 pv b1c3 score cp 50 hashfull 0 nps 1234");
     Some (lit "bestmove b1c3")].
Proof. vm_compute. repeat split. Qed.

(* C16 - The engine's output stream is well-formed and self-consistent (output side).
   "Every line the engine process writes in response to a command is a syntactically valid UCI engine-to-GUI
    message (only the start-up banner is free text)."
   Spec:  Spec/UciOut.v      the engine-to-GUI grammar: parser `parse_engine_line`, recogniser `engine_line`
   Model: Model/ConsoleTx.v  `ConsoleUciTx` (uci/src/uci/console.rs): `tx` / `render`, one `tx_msg` per `UciTx` call
   Side conditions and intended reading of a call: Proofs/ConsoleOk.v (`msg_ok`, `abstract_of`).
   Only pinned statements here; proofs are in Proofs/ConsoleProofs.v.
   The session-level claims of C16 (monotone depth/nodes/time, legal PVs, bestmove/ponder = head of the last PV) are
   checked on real engine output with `parse_engine_line` (family spec-engineline, Driver/RunUciOut.v). *)
Require Import Ink.Lib.Str.
Require Import NArith ZArith List Bool.
Import ListNotations.
Require Import Ink.Spec.UciOut Ink.Model.ConsoleTx Ink.Proofs.ConsoleOk Ink.Proofs.ConsoleProofs.
Open Scope N_scope.

(* ---- every rendered message that satisfies the side conditions is a valid engine-to-GUI line ---- *)
Theorem C16_render_valid : forall m s, msg_ok m = true -> render m = Some s -> engine_line s = true.
Proof. exact render_valid. Qed.
Print Assumptions C16_render_valid.

(* ---- and the grammar reads back exactly the message that was meant (all fields, in the emitted order) ---- *)
Theorem C16_parse_render : forall m s, msg_ok m = true -> render m = Some s ->
  parse_engine_line s = Some (abstract_of m).
Proof. exact parse_render. Qed.
Print Assumptions C16_parse_render.

(* the two big cases on their own *)
Theorem C16_info_parse : forall i, info_ok i = true ->
  parse_engine_line (render_info i) = Some (OInfo (abstract_info i)).
Proof. exact info_parse. Qed.
Print Assumptions C16_info_parse.

Theorem C16_bestmove_parse : forall b p s, opt_ok mv_ok b = true -> opt_ok mv_ok p = true ->
  render (BestMove b p) = Some s ->
  parse_engine_line s = Some (OBestMove (option_map show_move b) (option_map show_move p)).
Proof. intros b p s Hb Hp. exact (bestmove_parse b p Hb Hp s). Qed.
Print Assumptions C16_bestmove_parse.

(* what the session checks read off an info line: depth / nodes / time / pv / score are the rendered ones *)
Theorem C16_info_readback : forall i s, info_ok i = true -> render (Info i) = Some s ->
  exists items, parse_engine_line s = Some (OInfo items) /\
    info_depth items = i_depth i /\ info_nodes items = i_nodes i /\ info_time items = i_time i /\
    info_pv items = option_map (map show_move) (i_principal_variation i) /\
    info_score items = option_map abstract_score (i_score i).
Proof. exact info_readback. Qed.
Print Assumptions C16_info_readback.

(* a message satisfying the side conditions does not hit the assert! of id_name / id_author *)
Theorem C16_ok_no_panic : forall m, msg_ok m = true -> tx m <> Panic.
Proof. exact ok_no_panic. Qed.
Print Assumptions C16_ok_no_panic.

(* ---- the Info values built by search.rs satisfy the side conditions ---- *)
Theorem C16_engine_infos_ok :
  (forall depth time nodes pv sc hash_full nps dbg,
     hash_full <= 1000 -> opt_ok mvs_ok pv = true -> opt_ok single_line dbg = true ->
     msg_ok (Info (engine_iteration_info depth time nodes pv sc hash_full nps dbg)) = true) /\
  (forall time nodes hash_full nps,
     hash_full <= 1000 -> msg_ok (Info (engine_periodic_info time nodes hash_full nps)) = true).
Proof. exact engine_infos_ok. Qed.
Print Assumptions C16_engine_infos_ok.

(* ---- hence everything the engine sends is a valid line ---- *)
Theorem C16_engine_output_valid : forall m s, engine_emits m -> render m = Some s -> engine_line s = true.
Proof. exact engine_output_valid. Qed.
Print Assumptions C16_engine_output_valid.

(* ---- calls the engine must never make: they violate msg_ok and the rendered line is NOT valid ---- *)
Definition renders_invalid (m : tx_msg) (line : str) : Prop :=
  msg_ok m = false /\ render m = Some line /\ engine_line line = false.

Definition with_pv (ms : list mv) : info_record :=
  {| i_depth := Some 3; i_selective_depth := None; i_time := None; i_nodes := None; i_principal_variation := Some ms;
     i_multi_pv := None; i_score := None; i_current_move := None; i_current_move_number := None; i_hash_full := None;
     i_nps := None; i_table_hits := None; i_shredder_table_hits := None; i_cpu_load := None; i_string := None;
     i_refutation := None; i_current_line := None |}.
Definition only_pv (ms : list mv) : info_record :=
  {| i_depth := None; i_selective_depth := None; i_time := None; i_nodes := None; i_principal_variation := Some ms;
     i_multi_pv := None; i_score := None; i_current_move := None; i_current_move_number := None; i_hash_full := None;
     i_nps := None; i_table_hits := None; i_shredder_table_hits := None; i_cpu_load := None; i_string := None;
     i_refutation := None; i_current_line := None |}.
Definition only_hashfull (n : N) : info_record :=
  {| i_depth := None; i_selective_depth := None; i_time := None; i_nodes := None; i_principal_variation := None;
     i_multi_pv := None; i_score := None; i_current_move := None; i_current_move_number := None; i_hash_full := Some n;
     i_nps := None; i_table_hits := None; i_shredder_table_hits := None; i_cpu_load := None; i_string := None;
     i_refutation := None; i_current_line := None |}.
Definition only_string (s : str) : info_record :=
  {| i_depth := None; i_selective_depth := None; i_time := None; i_nodes := None; i_principal_variation := None;
     i_multi_pv := None; i_score := None; i_current_move := None; i_current_move_number := None; i_hash_full := None;
     i_nps := None; i_table_hits := None; i_shredder_table_hits := None; i_cpu_load := None; i_string := Some s;
     i_refutation := None; i_current_line := None |}.
Definition only_refutation (ms : list mv) : info_record :=
  {| i_depth := None; i_selective_depth := None; i_time := None; i_nodes := None; i_principal_variation := None;
     i_multi_pv := None; i_score := None; i_current_move := None; i_current_move_number := None; i_hash_full := None;
     i_nps := None; i_table_hits := None; i_shredder_table_hits := None; i_cpu_load := None; i_string := None;
     i_refutation := Some ms; i_current_line := None |}.
Definition only_currline (n : N) (ms : list mv) : info_record :=
  {| i_depth := None; i_selective_depth := None; i_time := None; i_nodes := None; i_principal_variation := None;
     i_multi_pv := None; i_score := None; i_current_move := None; i_current_move_number := None; i_hash_full := None;
     i_nps := None; i_table_hits := None; i_shredder_table_hits := None; i_cpu_load := None; i_string := None;
     i_refutation := None; i_current_line := Some (n, ms) |}.
Definition only_currmove (m : mv) : info_record :=
  {| i_depth := None; i_selective_depth := None; i_time := None; i_nodes := None; i_principal_variation := None;
     i_multi_pv := None; i_score := None; i_current_move := Some m; i_current_move_number := None; i_hash_full := None;
     i_nps := None; i_table_hits := None; i_shredder_table_hits := None; i_cpu_load := None; i_string := None;
     i_refutation := None; i_current_line := None |}.

(* a7 = 8, a8 = 0, e2 = 52, e4 = 36 *)
Example C16_render_invalid_examples :
  (* Info::EMPTY: the bare word `info` *)
  renders_invalid (Info info_empty) (lit "info") /\
  (* Some(vec![]) as principal variation: `pv` without a move, and a trailing space *)
  renders_invalid (Info (only_pv [])) (lit "info pv ") /\
  renders_invalid (Info (with_pv [])) (lit "info depth 3 pv ") /\
  renders_invalid (Info (only_refutation [])) (lit "info refutation ") /\
  renders_invalid (Info (only_currline 1 [])) (lit "info currline 1 ") /\
  (* hash_full is not clamped *)
  renders_invalid (Info (only_hashfull 1001)) (lit "info hashfull 1001") /\
  (* UciMove::promote_to may hold any Piece *)
  renders_invalid (Info (only_currmove (8, 0, Some 6))) (lit "info currmove a7a8k") /\
  renders_invalid (BestMove (Some (8, 0, Some 1)) None) (lit "bestmove a7a8p") /\
  (* texts are copied verbatim: a line feed splits the line *)
  renders_invalid (Info (only_string (lit "a" ++ [10] ++ lit "b"))) (lit "info string a" ++ [10] ++ lit "b") /\
  renders_invalid (IdName (lit "a" ++ [10] ++ lit "b")) (lit "id name a" ++ [10] ++ lit "b") /\
  (* only the empty string is refused by the assert!, not a blank one *)
  renders_invalid (IdName (lit " ")) (lit "id name  ") /\
  (* options: empty name, empty default (the protocol wants <empty>), the word `type` inside a name *)
  renders_invalid (OptionButton []) (lit "option name  type button") /\
  renders_invalid (OptionString (lit "P") []) (lit "option name P type string default") /\
  renders_invalid (OptionSpin (lit "my type") 1 0 9) (lit "option name my type type spin default 1 min 0 max 9") /\
  renders_invalid (OptionCombo (lit "Style") (lit "Normal") [[]]) (lit "option name Style type combo default Normal var").
Proof. vm_compute. repeat split. Qed.

(* the assert! of id_name / id_author *)
Example C16_empty_id_panics : tx (IdName []) = Panic /\ tx (IdAuthor []) = Panic /\ render (Debug (lit "x")) = None.
Proof. vm_compute. repeat split. Qed.

(* ---- non-vacuity: concrete engine lines, rendered by the model, parsed back by the grammar ---- *)
Definition demo_info : info_record :=
  engine_iteration_info 3 12 77 (Some [(52, 36, None); (12, 28, None)]) (Some (Centipawn (-20))) 5 9 None.

Example C16_demo_info :
  render (Info demo_info) = Some (lit "info depth 3 time 12 nodes 77 pv e2e4 e7e5 score cp -20 hashfull 5 nps 9")
  /\ parse_engine_line (lit "info depth 3 time 12 nodes 77 pv e2e4 e7e5 score cp -20 hashfull 5 nps 9")
     = Some (OInfo [IDepth 3; ITime 12; INodes 77; IPv [lit "e2e4"; lit "e7e5"]; IScore (SCp (-20) None); IHashFull 5; INps 9])
  /\ msg_ok (Info demo_info) = true.
Proof. vm_compute. repeat split. Qed.

(* the keys may come in any order; a key may not repeat; `string` swallows the rest of the line *)
Example C16_demo_grammar :
  engine_line (lit "info score mate -3 upperbound nodes 5 depth 2") = true /\
  engine_line (lit "info depth 1 depth 2") = false /\
  engine_line (lit "info depth 1  nodes 2") = false /\
  engine_line (lit "info nodes 2 ") = false /\
  engine_line (lit "info depth") = false /\
  engine_line (lit "info pv e2e4 e7e8k") = false /\
  engine_line (lit "info currline e2e4 e7e5") = true /\
  engine_line (lit "info currline 2 e2e4") = true /\
  parse_engine_line (lit "info depth 1 string depth 2 pv xyz") = Some (OInfo [IDepth 1; IString (lit "depth 2 pv xyz")]) /\
  parse_engine_line (lit "bestmove e7e8q ponder a2a1") = Some (OBestMove (Some (lit "e7e8q")) (Some (lit "a2a1"))) /\
  parse_engine_line (lit "bestmove 0000") = Some (OBestMove None None) /\
  engine_line (lit "bestmove") = false /\
  engine_line (lit "bestmove E2E4") = false /\
  engine_line (lit "id name Inkayaku") = true /\
  engine_line (lit "id name") = false /\
  engine_line (lit "registration checking") = true /\
  engine_line (lit "registration maybe") = false /\
  engine_line (lit "option name Clear Hash type button") = true /\
  engine_line (lit "option name Style type combo default Normal var Solid var Normal var Risky") = true /\
  engine_line (lit "option name Hash type spin default 1 min 1 max x") = false /\
  engine_line (lit "Inkayaku by Marvin Kuhnke") = false.
Proof. vm_compute. repeat split. Qed.

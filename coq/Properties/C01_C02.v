(* C01 + C02 - the legality-filter statements of C01 with the hypothesis `Hmake` discharged by property C02
   (Proofs/MakeProofs.v, C02_step), for every legal position of the rules; and the terminal-position statements
   of C05 (CheckProofs.terminal_checkmate etc.) with their hypothesis `Hgen` discharged.  Only pinned statements and glue.
   Side conditions: tables_attacks_ok T (Gen: SweepAll.tables_ok), tables_movegen_ok T (Gen: gen_tables_movegen_ok;
   it implies tables_castle_ok and MakeProofs.tables_ranks_ok), wf b, legal_pos (abs b) = true. *)
Require Import Ink.Lib.Str.
Require Import NArith ZArith List Bool.
Import ListNotations.
Require Import Ink.Lib.Bits Ink.Model.Tables Ink.Model.Board Ink.Spec.Rules.
Require Import Ink.Proofs.Abs Ink.Proofs.AttackProofs Ink.Proofs.AbsProofs Ink.Proofs.CheckProofs Ink.Proofs.MakeUnmake.
Require Import Ink.Proofs.MoveGenProofs Ink.Proofs.MakeProofs.
Require Import Ink.Gen.Tables Ink.Gen.SweepAll.
Open Scope N_scope.

Lemma movegen_ranks T : tables_movegen_ok T = true -> tables_ranks_ok T = true.
Proof.
  intros H. destruct (tables_movegen_elim T H) as (H1 & H2 & H7 & H8 & _).
  unfold tables_ranks_ok. rewrite H1, H2, H7, H8. reflexivity.
Qed.

(* property C02 in the shape C01 uses it *)
Lemma hmake_of_c02 T : tables_attacks_ok T = true -> tables_movegen_ok T = true ->
  forall b, wf b = true -> legal_pos (abs b) = true ->
  forall m, In m (gen_pseudo T b) ->
    exists b', make b m = Some b' /\ wf b' = true /\ abs b' = Rules.apply (abs b) (uci_of m).
Proof.
  intros OK MK b Hwf Hl m Hm. apply (legal_pos_iff T OK b Hwf) in Hl as (Hr & He & Hv).
  destruct (C02_step T OK (tables_movegen_castle T MK) (movegen_ranks T MK) b m Hwf Hr He Hv Hm)
    as (b' & E & A & W & _).
  exists b'. auto.
Qed.

Theorem C01_legal_exact_closed : forall T, tables_attacks_ok T = true -> tables_movegen_ok T = true ->
  forall b, wf b = true -> legal_pos (abs b) = true ->
  (forall u, In u (map uci_of (gen_legal T b)) <-> In u (legal_moves (abs b))) /\
  NoDup (map uci_of (gen_legal T b)) /\
  (gen_legal T b = [] <-> legal_moves (abs b) = []).
Proof.
  intros T OK MK b Hwf Hl. destruct (legal_pos_conditions b Hwf Hl) as [Hr He].
  pose proof (hmake_of_c02 T OK MK b Hwf Hl) as Hmake.
  destruct (MoveGenProofs.C01_legal_exact T OK MK b Hwf Hr He Hmake) as [H1 H2].
  split; [exact H1|]. split; [exact H2|]. exact (MoveGenProofs.C01_terminal T OK MK b Hwf Hr He Hmake).
Qed.
Print Assumptions C01_legal_exact_closed.

(* checkmate / stalemate of the rules = no legal move in the model + the model's check test *)
Theorem C01_terminal_closed : forall T, tables_attacks_ok T = true -> tables_movegen_ok T = true ->
  forall b, wf b = true -> legal_pos (abs b) = true ->
  (Rules.checkmate (abs b) = true <-> gen_legal T b = [] /\ is_current_in_check T b = true) /\
  (Rules.stalemate (abs b) = true <-> gen_legal T b = [] /\ is_current_in_check T b = false) /\
  (gen_legal T b = [] <-> Rules.checkmate (abs b) = true \/ Rules.stalemate (abs b) = true).
Proof.
  intros T OK MK b Hwf Hl. destruct (C01_legal_exact_closed T OK MK b Hwf Hl) as (_ & _ & Hgen).
  split; [exact (terminal_checkmate T OK b Hwf Hgen)|].
  split; [exact (terminal_stalemate T OK b Hwf Hgen)|exact (terminal_no_moves T OK b Hwf Hgen)].
Qed.
Print Assumptions C01_terminal_closed.

(* the tables of the current tree *)
Theorem C01_legal_exact_closed_gen : forall b, wf b = true -> legal_pos (abs b) = true ->
  (forall u, In u (map uci_of (gen_legal tables b)) <-> In u (legal_moves (abs b))) /\
  NoDup (map uci_of (gen_legal tables b)) /\
  (gen_legal tables b = [] <-> legal_moves (abs b) = []).
Proof. exact (C01_legal_exact_closed tables tables_ok gen_tables_movegen_ok). Qed.
Print Assumptions C01_legal_exact_closed_gen.

Theorem C01_terminal_closed_gen : forall b, wf b = true -> legal_pos (abs b) = true ->
  (Rules.checkmate (abs b) = true <-> gen_legal tables b = [] /\ is_current_in_check tables b = true) /\
  (Rules.stalemate (abs b) = true <-> gen_legal tables b = [] /\ is_current_in_check tables b = false) /\
  (gen_legal tables b = [] <-> Rules.checkmate (abs b) = true \/ Rules.stalemate (abs b) = true).
Proof. exact (C01_terminal_closed tables tables_ok gen_tables_movegen_ok). Qed.
Print Assumptions C01_terminal_closed_gen.

(* C13 (exactness part) - "move strings are applied only if legal; a rejected move changes nothing", against the RULES.
   Model: Model/Notation.v (find_uci, make_uci, make_all_uci, uci_to_pgn; board/src/board.rs after fix 01edf1e).
   Spec:  Spec/Rules.v (legal_moves, pseudo_moves, apply, `uci` = the UCI text of a move of the rules).
   Abstraction: Proofs/Abs.v (abs : board -> pos, uci_of : move -> mv).
   Proofs: Proofs/UciExact.v, on top of C01 (MoveGenProofs), C02 (MakeProofs), C03 (MakeUnmake).  Only pinned statements here.
   (The no-side-effect statements that do not mention the rules are in Properties/C13.v.)

   Quantifier: every table set T passing the two boolean checks of Properties/C01_C02.v, every board b with
   wf b = true and legal_pos (abs b) = true, EVERY string s.  The text compared with the rules is `trim s`
   (Rust str::trim, Unicode White_Space), as in the implementation.

   Side conditions
     tables_attacks_ok T, tables_movegen_ok T   Gen tables: SweepAll.tables_ok, MoveGenProofs.gen_tables_movegen_ok (`_gen` instances below)
     wf b, legal_pos (abs b) = true             position invariant; preserved (C02_legal_pos_preserved, and in every success clause below)
     half b < 4096                              ADDED, and NECESSARY for everything that mentions the board left behind: the take-back
                                                inside find_uci / uci_to_pgn restores `half b mod 4096` (12-bit PREVIOUS_HALFMOVE field).
                                                Witnesses: C13_rejected_unchanged_refuted_at_clock_4096, C13_successor_refuted_at_clock_4096.
                                                The VERDICT (accepted / rejected) needs no clock condition: C13_verdict_any_clock.
                                                For a list of n texts: half b + n <= 4096.
   Every function returns (result, board left behind); `None` for the board would be a panic arm: all statements below
   show `Some _`, i.e. no panic arm is reached. *)
Require Import Ink.Lib.Str.
Require Import NArith ZArith List Bool.
Import ListNotations.
Require Import Ink.Lib.Bits Ink.Model.Tables Ink.Model.Board Ink.Model.Fen Ink.Model.Notation Ink.Spec.Rules.
Require Import Ink.Proofs.Abs Ink.Proofs.AttackProofs Ink.Proofs.MakeUnmake Ink.Proofs.MoveGenProofs.
Require Ink.Proofs.UciExact.
Require Ink.Gen.Tables Ink.Gen.SweepAll.
Import Ink.Proofs.UciExact.
Open Scope N_scope.

(* ================================================================== *)
(* 1. make_uci                                                         *)
(* ================================================================== *)
(* applied exactly when the trimmed text is the UCI text of a legal move of the rules *)
Theorem C13_make_uci_iff : forall (T : Tables.t), tables_attacks_ok T = true -> tables_movegen_ok T = true ->
  forall (b : board) (s : str), wf b = true -> legal_pos (abs b) = true -> half b < 4096 ->
  (fst (make_uci T b s) = inr tt <-> exists u, In u (legal_moves (abs b)) /\ Rules.uci u = trim s).
Proof. exact make_uci_iff. Qed.
Print Assumptions C13_make_uci_iff.

(* ... and then the board reached is the successor the rules define, and satisfies the invariant again *)
Theorem C13_make_uci_accept : forall (T : Tables.t), tables_attacks_ok T = true -> tables_movegen_ok T = true ->
  forall (b : board) (s : str) (u : mv), wf b = true -> legal_pos (abs b) = true -> half b < 4096 ->
  In u (legal_moves (abs b)) -> Rules.uci u = trim s ->
  exists b', make_uci T b s = (inr tt, Some b') /\ abs b' = Rules.apply (abs b) u /\ wf b' = true /\ legal_pos (abs b') = true.
Proof. exact make_uci_accept. Qed.
Print Assumptions C13_make_uci_accept.

(* any other string: an error, the board is left exactly as it was; MoveIsNotValid exactly for a pseudo-legal move
   that leaves the own king in check, MoveDoesNotExist otherwise *)
Theorem C13_make_uci_reject : forall (T : Tables.t), tables_attacks_ok T = true -> tables_movegen_ok T = true ->
  forall (b : board) (s : str), wf b = true -> legal_pos (abs b) = true -> half b < 4096 ->
  (forall u, In u (legal_moves (abs b)) -> Rules.uci u <> trim s) ->
  exists e, make_uci T b s = (inl e, Some b) /\
            (e = MoveIsNotValid <-> exists u, In u (pseudo_moves (abs b)) /\ Rules.uci u = trim s).
Proof. exact make_uci_reject. Qed.
Print Assumptions C13_make_uci_reject.

(* the three outcomes in one statement *)
Theorem C13_make_uci_exact : forall (T : Tables.t), tables_attacks_ok T = true -> tables_movegen_ok T = true ->
  forall (b : board) (s : str), wf b = true -> legal_pos (abs b) = true -> half b < 4096 ->
  (exists u b', In u (legal_moves (abs b)) /\ Rules.uci u = trim s /\ make_uci T b s = (inr tt, Some b') /\
                abs b' = Rules.apply (abs b) u /\ wf b' = true /\ legal_pos (abs b') = true) \/
  (make_uci T b s = (inl MoveIsNotValid, Some b) /\
   (forall u, In u (legal_moves (abs b)) -> Rules.uci u <> trim s) /\
   (exists u, In u (pseudo_moves (abs b)) /\ Rules.uci u = trim s)) \/
  (make_uci T b s = (inl MoveDoesNotExist, Some b) /\
   forall u, In u (pseudo_moves (abs b)) -> Rules.uci u <> trim s).
Proof. exact make_uci_exact. Qed.
Print Assumptions C13_make_uci_exact.

(* "promotion letter required exactly for promotions" (stated for pseudo-legal moves, hence for legal ones:
   C13_legal_moves_pseudo).  The 4-character text of a promoting move is rejected ... *)
Theorem C13_promotion_letter_required : forall (T : Tables.t), tables_attacks_ok T = true -> tables_movegen_ok T = true ->
  forall (b : board) (s : str) (u : mv) (k : kind), wf b = true -> legal_pos (abs b) = true -> half b < 4096 ->
  In u (pseudo_moves (abs b)) -> prom u = Some k -> trim s = sq_text (from u) ++ sq_text (to u) ->
  make_uci T b s = (inl MoveDoesNotExist, Some b) /\ find_uci T b s = (inl MoveDoesNotExist, Some b).
Proof. exact promo_letter_missing. Qed.
Print Assumptions C13_promotion_letter_required.

(* ... and so is a 5-character text with a promotion letter on a non-promoting move *)
Theorem C13_promotion_letter_only_for_promotions : forall (T : Tables.t), tables_attacks_ok T = true -> tables_movegen_ok T = true ->
  forall (b : board) (s : str) (u : mv) (k : kind), wf b = true -> legal_pos (abs b) = true -> half b < 4096 ->
  In u (pseudo_moves (abs b)) -> prom u = None -> trim s = sq_text (from u) ++ sq_text (to u) ++ [kind_letter k] ->
  make_uci T b s = (inl MoveDoesNotExist, Some b) /\ find_uci T b s = (inl MoveDoesNotExist, Some b).
Proof. exact promo_letter_superfluous. Qed.
Print Assumptions C13_promotion_letter_only_for_promotions.

Theorem C13_legal_moves_pseudo : forall (p : pos) (u : mv), In u (legal_moves p) -> In u (pseudo_moves p).
Proof. exact legal_is_pseudo. Qed.
Print Assumptions C13_legal_moves_pseudo.

(* a promotion piece is given by the rules exactly on a pawn move to the last row *)
Theorem C13_rules_promotion_shape : forall (p : pos) (u : mv), In u (pseudo_moves p) ->
  exists k, get p (from u) = Some (to_move p, k) /\
            (prom u <> None <-> k = Pawn /\ rowZ (to u) = last_row (to_move p)).
Proof. exact pseudo_moves_origin. Qed.
Print Assumptions C13_rules_promotion_shape.

(* ================================================================== *)
(* 2. find_uci and uci_to_pgn                                          *)
(* ================================================================== *)
(* find_uci returns THE generator move whose abstraction is the legal move the text denotes; the board is untouched *)
Theorem C13_find_uci_exact : forall (T : Tables.t), tables_attacks_ok T = true -> tables_movegen_ok T = true ->
  forall (b : board) (s : str), wf b = true -> legal_pos (abs b) = true -> half b < 4096 ->
  (exists m, find_uci T b s = (inr m, Some b) /\ In m (gen_legal T b) /\
             In (uci_of m) (legal_moves (abs b)) /\ Rules.uci (uci_of m) = trim s) \/
  (find_uci T b s = (inl MoveIsNotValid, Some b) /\
   (forall u, In u (legal_moves (abs b)) -> Rules.uci u <> trim s) /\
   (exists u, In u (pseudo_moves (abs b)) /\ Rules.uci u = trim s)) \/
  (find_uci T b s = (inl MoveDoesNotExist, Some b) /\
   forall u, In u (pseudo_moves (abs b)) -> Rules.uci u <> trim s).
Proof. exact find_uci_exact. Qed.
Print Assumptions C13_find_uci_exact.

Theorem C13_find_uci_iff : forall (T : Tables.t), tables_attacks_ok T = true -> tables_movegen_ok T = true ->
  forall (b : board) (s : str), wf b = true -> legal_pos (abs b) = true -> half b < 4096 ->
  ((exists m, fst (find_uci T b s) = inr m) <-> exists u, In u (legal_moves (abs b)) /\ Rules.uci u = trim s) /\
  (forall m, fst (find_uci T b s) = inr m ->
     In m (gen_legal T b) /\ In (uci_of m) (legal_moves (abs b)) /\ Rules.uci (uci_of m) = trim s /\
     forall u, In u (legal_moves (abs b)) -> Rules.uci u = trim s -> u = uci_of m) /\
  snd (find_uci T b s) = Some b.
Proof. exact find_uci_iff. Qed.
Print Assumptions C13_find_uci_iff.

(* SAN conversion: succeeds exactly for a legal move; the board is untouched in all three cases *)
Theorem C13_uci_to_pgn_exact : forall (T : Tables.t), tables_attacks_ok T = true -> tables_movegen_ok T = true ->
  forall (b : board) (s : str), wf b = true -> legal_pos (abs b) = true -> half b < 4096 ->
  (exists m text, uci_to_pgn T b s = (inr text, Some b) /\ In m (gen_legal T b) /\
                  In (uci_of m) (legal_moves (abs b)) /\ Rules.uci (uci_of m) = trim s) \/
  (uci_to_pgn T b s = (inl MoveIsNotValid, Some b) /\
   (forall u, In u (legal_moves (abs b)) -> Rules.uci u <> trim s) /\
   (exists u, In u (pseudo_moves (abs b)) /\ Rules.uci u = trim s)) \/
  (uci_to_pgn T b s = (inl MoveDoesNotExist, Some b) /\
   forall u, In u (pseudo_moves (abs b)) -> Rules.uci u <> trim s).
Proof. exact uci_to_pgn_exact. Qed.
Print Assumptions C13_uci_to_pgn_exact.

Theorem C13_uci_to_pgn_iff : forall (T : Tables.t), tables_attacks_ok T = true -> tables_movegen_ok T = true ->
  forall (b : board) (s : str), wf b = true -> legal_pos (abs b) = true -> half b < 4096 ->
  ((exists text, fst (uci_to_pgn T b s) = inr text) <-> exists u, In u (legal_moves (abs b)) /\ Rules.uci u = trim s) /\
  snd (uci_to_pgn T b s) = Some b.
Proof. exact uci_to_pgn_iff. Qed.
Print Assumptions C13_uci_to_pgn_iff.

(* the verdict of all three entry points is right for EVERY half-move clock (only the board left behind needs the bound) *)
Theorem C13_verdict_any_clock : forall (T : Tables.t), tables_attacks_ok T = true -> tables_movegen_ok T = true ->
  forall (b : board) (s : str), wf b = true -> legal_pos (abs b) = true ->
  ((exists m, fst (find_uci T b s) = inr m) <-> exists u, In u (legal_moves (abs b)) /\ Rules.uci u = trim s) /\
  (fst (make_uci T b s) = inr tt <-> exists u, In u (legal_moves (abs b)) /\ Rules.uci u = trim s) /\
  ((exists text, fst (uci_to_pgn T b s) = inr text) <-> exists u, In u (legal_moves (abs b)) /\ Rules.uci u = trim s).
Proof. exact verdict_any_clock. Qed.
Print Assumptions C13_verdict_any_clock.

(* ================================================================== *)
(* 3. make_all_uci                                                     *)
(* ================================================================== *)
(* legal_text_line p ss us: the texts ss denote, one after the other, the legal moves us of the rules, starting from p *)
Theorem C13_legal_text_line_meaning : forall (p : pos),
  (legal_text_line p [] [] <-> True) /\
  (forall s r u ur, legal_text_line p (s :: r) (u :: ur) <->
                    In u (legal_moves p) /\ Rules.uci u = trim s /\ legal_text_line (Rules.apply p u) r ur) /\
  (forall s r, ~ legal_text_line p (s :: r) []) /\ (forall u ur, ~ legal_text_line p [] (u :: ur)).
Proof. exact legal_text_line_meaning. Qed.
Print Assumptions C13_legal_text_line_meaning.

(* all or nothing, exactly: either the texts are a legal line of the rules (a unique one), every move is played and the board
   is the fold of Rules.apply; or an error is reported and the board is the one before the call.
   Clock budget: half b + (number of texts) <= 4096. *)
Theorem C13_make_all_uci_exact : forall (T : Tables.t), tables_attacks_ok T = true -> tables_movegen_ok T = true ->
  forall (b : board) (ss : list str),
  wf b = true -> legal_pos (abs b) = true -> half b + N.of_nat (length ss) <= 4096 ->
  (exists us b', legal_text_line (abs b) ss us /\ (forall us', legal_text_line (abs b) ss us' -> us' = us) /\
                 make_all_uci T b ss = (inr tt, Some b') /\
                 abs b' = fold_left Rules.apply us (abs b) /\ wf b' = true /\ legal_pos (abs b') = true) \/
  (exists e, make_all_uci T b ss = (inl e, Some b) /\ forall us, ~ legal_text_line (abs b) ss us).
Proof. exact make_all_uci_exact. Qed.
Print Assumptions C13_make_all_uci_exact.

Theorem C13_make_all_uci_iff : forall (T : Tables.t), tables_attacks_ok T = true -> tables_movegen_ok T = true ->
  forall (b : board) (ss : list str),
  wf b = true -> legal_pos (abs b) = true -> half b + N.of_nat (length ss) <= 4096 ->
  (fst (make_all_uci T b ss) = inr tt <-> exists us, legal_text_line (abs b) ss us).
Proof. exact make_all_uci_iff. Qed.
Print Assumptions C13_make_all_uci_iff.

Theorem C13_make_all_uci_accept : forall (T : Tables.t), tables_attacks_ok T = true -> tables_movegen_ok T = true ->
  forall (b : board) (ss : list str) (us : list mv),
  wf b = true -> legal_pos (abs b) = true -> half b + N.of_nat (length ss) <= 4096 ->
  legal_text_line (abs b) ss us ->
  exists b', make_all_uci T b ss = (inr tt, Some b') /\ abs b' = fold_left Rules.apply us (abs b) /\
             wf b' = true /\ legal_pos (abs b') = true.
Proof. exact make_all_uci_accept. Qed.
Print Assumptions C13_make_all_uci_accept.

Theorem C13_make_all_uci_reject : forall (T : Tables.t), tables_attacks_ok T = true -> tables_movegen_ok T = true ->
  forall (b : board) (ss : list str),
  wf b = true -> legal_pos (abs b) = true -> half b + N.of_nat (length ss) <= 4096 ->
  (forall us, ~ legal_text_line (abs b) ss us) -> exists e, make_all_uci T b ss = (inl e, Some b).
Proof. exact make_all_uci_reject. Qed.
Print Assumptions C13_make_all_uci_reject.

Theorem C13_make_all_uci_all_or_nothing_exact : forall (T : Tables.t), tables_attacks_ok T = true -> tables_movegen_ok T = true ->
  forall (b : board) (ss : list str) (e : uci_err),
  wf b = true -> legal_pos (abs b) = true -> half b + N.of_nat (length ss) <= 4096 ->
  fst (make_all_uci T b ss) = inl e -> snd (make_all_uci T b ss) = Some b.
Proof. exact make_all_uci_all_or_nothing_exact. Qed.
Print Assumptions C13_make_all_uci_all_or_nothing_exact.

(* ================================================================== *)
(* 4. the clock bound is necessary (known finding: 12-bit previous-half-move field, C03)                   *)
(*    full statements WITHOUT `half b < 4096` are false for the model:                                       *)
(*      forall b s e, wf b = true -> legal_pos (abs b) = true -> fst (find_uci T b s) = inl e -> snd (find_uci T b s) = Some b  *)
(*      forall b s u b', ... make_uci T b s = (inr tt, Some b') -> abs b' = Rules.apply (abs b) u             *)
(* ================================================================== *)
Theorem C13_rejected_unchanged_refuted_at_clock_4096 :
  wf cx_clock_board = true /\ legal_pos (abs cx_clock_board) = true /\ half cx_clock_board = 4096 /\
  exists b', find_uci Ink.Gen.Tables.tables cx_clock_board (lit "d1e2") = (inl MoveIsNotValid, Some b') /\
             half b' = 0 /\ b' <> cx_clock_board.
Proof. exact clock_bound_needed_reject. Qed.
Print Assumptions C13_rejected_unchanged_refuted_at_clock_4096.

Theorem C13_successor_refuted_at_clock_4096 :
  exists b', make_uci Ink.Gen.Tables.tables cx_clock_board (lit "e1e2") = (inr tt, Some b') /\
             halfc (abs b') = 1 /\
             halfc (Rules.apply (abs cx_clock_board) {| from := 60; to := 52; prom := None |}) = 4097.
Proof. exact clock_bound_needed_accept. Qed.
Print Assumptions C13_successor_refuted_at_clock_4096.

(* ================================================================== *)
(* 5. the tables of the current /repo: no table condition left         *)
(* ================================================================== *)
Notation gen_tables := Ink.Gen.Tables.tables.

Theorem C13_make_uci_iff_gen : forall (b : board) (s : str),
  wf b = true -> legal_pos (abs b) = true -> half b < 4096 ->
  (fst (make_uci gen_tables b s) = inr tt <-> exists u, In u (legal_moves (abs b)) /\ Rules.uci u = trim s).
Proof. exact (make_uci_iff gen_tables Ink.Gen.SweepAll.tables_ok gen_tables_movegen_ok). Qed.
Print Assumptions C13_make_uci_iff_gen.

Theorem C13_make_uci_accept_gen : forall (b : board) (s : str) (u : mv),
  wf b = true -> legal_pos (abs b) = true -> half b < 4096 ->
  In u (legal_moves (abs b)) -> Rules.uci u = trim s ->
  exists b', make_uci gen_tables b s = (inr tt, Some b') /\ abs b' = Rules.apply (abs b) u /\
             wf b' = true /\ legal_pos (abs b') = true.
Proof. exact (make_uci_accept gen_tables Ink.Gen.SweepAll.tables_ok gen_tables_movegen_ok). Qed.
Print Assumptions C13_make_uci_accept_gen.

Theorem C13_make_uci_reject_gen : forall (b : board) (s : str),
  wf b = true -> legal_pos (abs b) = true -> half b < 4096 ->
  (forall u, In u (legal_moves (abs b)) -> Rules.uci u <> trim s) ->
  exists e, make_uci gen_tables b s = (inl e, Some b) /\
            (e = MoveIsNotValid <-> exists u, In u (pseudo_moves (abs b)) /\ Rules.uci u = trim s).
Proof. exact (make_uci_reject gen_tables Ink.Gen.SweepAll.tables_ok gen_tables_movegen_ok). Qed.
Print Assumptions C13_make_uci_reject_gen.

Theorem C13_make_uci_exact_gen : forall (b : board) (s : str),
  wf b = true -> legal_pos (abs b) = true -> half b < 4096 ->
  (exists u b', In u (legal_moves (abs b)) /\ Rules.uci u = trim s /\ make_uci gen_tables b s = (inr tt, Some b') /\
                abs b' = Rules.apply (abs b) u /\ wf b' = true /\ legal_pos (abs b') = true) \/
  (make_uci gen_tables b s = (inl MoveIsNotValid, Some b) /\
   (forall u, In u (legal_moves (abs b)) -> Rules.uci u <> trim s) /\
   (exists u, In u (pseudo_moves (abs b)) /\ Rules.uci u = trim s)) \/
  (make_uci gen_tables b s = (inl MoveDoesNotExist, Some b) /\
   forall u, In u (pseudo_moves (abs b)) -> Rules.uci u <> trim s).
Proof. exact (make_uci_exact gen_tables Ink.Gen.SweepAll.tables_ok gen_tables_movegen_ok). Qed.
Print Assumptions C13_make_uci_exact_gen.

Theorem C13_promotion_letter_required_gen : forall (b : board) (s : str) (u : mv) (k : kind),
  wf b = true -> legal_pos (abs b) = true -> half b < 4096 ->
  In u (pseudo_moves (abs b)) -> prom u = Some k -> trim s = sq_text (from u) ++ sq_text (to u) ->
  make_uci gen_tables b s = (inl MoveDoesNotExist, Some b) /\ find_uci gen_tables b s = (inl MoveDoesNotExist, Some b).
Proof. exact (promo_letter_missing gen_tables Ink.Gen.SweepAll.tables_ok gen_tables_movegen_ok). Qed.
Print Assumptions C13_promotion_letter_required_gen.

Theorem C13_promotion_letter_only_for_promotions_gen : forall (b : board) (s : str) (u : mv) (k : kind),
  wf b = true -> legal_pos (abs b) = true -> half b < 4096 ->
  In u (pseudo_moves (abs b)) -> prom u = None -> trim s = sq_text (from u) ++ sq_text (to u) ++ [kind_letter k] ->
  make_uci gen_tables b s = (inl MoveDoesNotExist, Some b) /\ find_uci gen_tables b s = (inl MoveDoesNotExist, Some b).
Proof. exact (promo_letter_superfluous gen_tables Ink.Gen.SweepAll.tables_ok gen_tables_movegen_ok). Qed.
Print Assumptions C13_promotion_letter_only_for_promotions_gen.

Theorem C13_find_uci_exact_gen : forall (b : board) (s : str),
  wf b = true -> legal_pos (abs b) = true -> half b < 4096 ->
  (exists m, find_uci gen_tables b s = (inr m, Some b) /\ In m (gen_legal gen_tables b) /\
             In (uci_of m) (legal_moves (abs b)) /\ Rules.uci (uci_of m) = trim s) \/
  (find_uci gen_tables b s = (inl MoveIsNotValid, Some b) /\
   (forall u, In u (legal_moves (abs b)) -> Rules.uci u <> trim s) /\
   (exists u, In u (pseudo_moves (abs b)) /\ Rules.uci u = trim s)) \/
  (find_uci gen_tables b s = (inl MoveDoesNotExist, Some b) /\
   forall u, In u (pseudo_moves (abs b)) -> Rules.uci u <> trim s).
Proof. exact (find_uci_exact gen_tables Ink.Gen.SweepAll.tables_ok gen_tables_movegen_ok). Qed.
Print Assumptions C13_find_uci_exact_gen.

Theorem C13_find_uci_iff_gen : forall (b : board) (s : str),
  wf b = true -> legal_pos (abs b) = true -> half b < 4096 ->
  ((exists m, fst (find_uci gen_tables b s) = inr m) <-> exists u, In u (legal_moves (abs b)) /\ Rules.uci u = trim s) /\
  (forall m, fst (find_uci gen_tables b s) = inr m ->
     In m (gen_legal gen_tables b) /\ In (uci_of m) (legal_moves (abs b)) /\ Rules.uci (uci_of m) = trim s /\
     forall u, In u (legal_moves (abs b)) -> Rules.uci u = trim s -> u = uci_of m) /\
  snd (find_uci gen_tables b s) = Some b.
Proof. exact (find_uci_iff gen_tables Ink.Gen.SweepAll.tables_ok gen_tables_movegen_ok). Qed.
Print Assumptions C13_find_uci_iff_gen.

Theorem C13_uci_to_pgn_exact_gen : forall (b : board) (s : str),
  wf b = true -> legal_pos (abs b) = true -> half b < 4096 ->
  (exists m text, uci_to_pgn gen_tables b s = (inr text, Some b) /\ In m (gen_legal gen_tables b) /\
                  In (uci_of m) (legal_moves (abs b)) /\ Rules.uci (uci_of m) = trim s) \/
  (uci_to_pgn gen_tables b s = (inl MoveIsNotValid, Some b) /\
   (forall u, In u (legal_moves (abs b)) -> Rules.uci u <> trim s) /\
   (exists u, In u (pseudo_moves (abs b)) /\ Rules.uci u = trim s)) \/
  (uci_to_pgn gen_tables b s = (inl MoveDoesNotExist, Some b) /\
   forall u, In u (pseudo_moves (abs b)) -> Rules.uci u <> trim s).
Proof. exact (uci_to_pgn_exact gen_tables Ink.Gen.SweepAll.tables_ok gen_tables_movegen_ok). Qed.
Print Assumptions C13_uci_to_pgn_exact_gen.

Theorem C13_uci_to_pgn_iff_gen : forall (b : board) (s : str),
  wf b = true -> legal_pos (abs b) = true -> half b < 4096 ->
  ((exists text, fst (uci_to_pgn gen_tables b s) = inr text) <-> exists u, In u (legal_moves (abs b)) /\ Rules.uci u = trim s) /\
  snd (uci_to_pgn gen_tables b s) = Some b.
Proof. exact (uci_to_pgn_iff gen_tables Ink.Gen.SweepAll.tables_ok gen_tables_movegen_ok). Qed.
Print Assumptions C13_uci_to_pgn_iff_gen.

Theorem C13_verdict_any_clock_gen : forall (b : board) (s : str), wf b = true -> legal_pos (abs b) = true ->
  ((exists m, fst (find_uci gen_tables b s) = inr m) <-> exists u, In u (legal_moves (abs b)) /\ Rules.uci u = trim s) /\
  (fst (make_uci gen_tables b s) = inr tt <-> exists u, In u (legal_moves (abs b)) /\ Rules.uci u = trim s) /\
  ((exists text, fst (uci_to_pgn gen_tables b s) = inr text) <-> exists u, In u (legal_moves (abs b)) /\ Rules.uci u = trim s).
Proof. exact (verdict_any_clock gen_tables Ink.Gen.SweepAll.tables_ok gen_tables_movegen_ok). Qed.
Print Assumptions C13_verdict_any_clock_gen.

Theorem C13_make_all_uci_exact_gen : forall (b : board) (ss : list str),
  wf b = true -> legal_pos (abs b) = true -> half b + N.of_nat (length ss) <= 4096 ->
  (exists us b', legal_text_line (abs b) ss us /\ (forall us', legal_text_line (abs b) ss us' -> us' = us) /\
                 make_all_uci gen_tables b ss = (inr tt, Some b') /\
                 abs b' = fold_left Rules.apply us (abs b) /\ wf b' = true /\ legal_pos (abs b') = true) \/
  (exists e, make_all_uci gen_tables b ss = (inl e, Some b) /\ forall us, ~ legal_text_line (abs b) ss us).
Proof. exact (make_all_uci_exact gen_tables Ink.Gen.SweepAll.tables_ok gen_tables_movegen_ok). Qed.
Print Assumptions C13_make_all_uci_exact_gen.

Theorem C13_make_all_uci_iff_gen : forall (b : board) (ss : list str),
  wf b = true -> legal_pos (abs b) = true -> half b + N.of_nat (length ss) <= 4096 ->
  (fst (make_all_uci gen_tables b ss) = inr tt <-> exists us, legal_text_line (abs b) ss us).
Proof. exact (make_all_uci_iff gen_tables Ink.Gen.SweepAll.tables_ok gen_tables_movegen_ok). Qed.
Print Assumptions C13_make_all_uci_iff_gen.

Theorem C13_make_all_uci_accept_gen : forall (b : board) (ss : list str) (us : list mv),
  wf b = true -> legal_pos (abs b) = true -> half b + N.of_nat (length ss) <= 4096 ->
  legal_text_line (abs b) ss us ->
  exists b', make_all_uci gen_tables b ss = (inr tt, Some b') /\ abs b' = fold_left Rules.apply us (abs b) /\
             wf b' = true /\ legal_pos (abs b') = true.
Proof. exact (make_all_uci_accept gen_tables Ink.Gen.SweepAll.tables_ok gen_tables_movegen_ok). Qed.
Print Assumptions C13_make_all_uci_accept_gen.

Theorem C13_make_all_uci_reject_gen : forall (b : board) (ss : list str),
  wf b = true -> legal_pos (abs b) = true -> half b + N.of_nat (length ss) <= 4096 ->
  (forall us, ~ legal_text_line (abs b) ss us) -> exists e, make_all_uci gen_tables b ss = (inl e, Some b).
Proof. exact (make_all_uci_reject gen_tables Ink.Gen.SweepAll.tables_ok gen_tables_movegen_ok). Qed.
Print Assumptions C13_make_all_uci_reject_gen.

Theorem C13_make_all_uci_all_or_nothing_exact_gen : forall (b : board) (ss : list str) (e : uci_err),
  wf b = true -> legal_pos (abs b) = true -> half b + N.of_nat (length ss) <= 4096 ->
  fst (make_all_uci gen_tables b ss) = inl e -> snd (make_all_uci gen_tables b ss) = Some b.
Proof. exact (make_all_uci_all_or_nothing_exact gen_tables Ink.Gen.SweepAll.tables_ok gen_tables_movegen_ok). Qed.
Print Assumptions C13_make_all_uci_all_or_nothing_exact_gen.

(* ================================================================== *)
(* 6. the hypotheses are satisfiable; concrete texts (vm_compute)      *)
(* ================================================================== *)
Definition x_start : board := board_of_text STARTPOS.
(* white pawn e7 about to promote, e8 empty *)
Definition x_promo : board := board_of_text (lit "7k/4P3/8/8/8/8/8/4K3 w - - 0 1").
(* d1e2 is pseudo-legal but leaves the king in check (defect D8 position) *)
Definition x_pinned : board := board_of_text (lit "4k3/8/8/8/8/8/8/r2BK3 w - - 0 1").

Example C13x_start_hyps : wf x_start = true /\ legal_pos (abs x_start) = true /\ half x_start < 4096.
Proof. repeat split; vm_compute; reflexivity. Qed.
Example C13x_promo_hyps : wf x_promo = true /\ legal_pos (abs x_promo) = true /\ half x_promo < 4096.
Proof. repeat split; vm_compute; reflexivity. Qed.
Example C13x_pinned_hyps : wf x_pinned = true /\ legal_pos (abs x_pinned) = true /\ half x_pinned < 4096.
Proof. repeat split; vm_compute; reflexivity. Qed.

(* start position: e2e4 accepted (also with surrounding white space), e2e5 rejected *)
Example C13x_e2e4_accepted : fst (make_uci gen_tables x_start (lit "e2e4")) = inr tt.
Proof. vm_compute. reflexivity. Qed.
Example C13x_e2e4_trimmed : fst (make_uci gen_tables x_start (lit "  e2e4 ")) = inr tt.
Proof. vm_compute. reflexivity. Qed.
Example C13x_e2e4_successor :
  snd (make_uci gen_tables x_start (lit "e2e4")) =
  Some (board_of_text (lit "rnbqkbnr/pppppppp/8/8/4P3/8/PPPP1PPP/RNBQKBNR b KQkq e3 0 1")).
Proof. vm_compute. reflexivity. Qed.
Example C13x_e2e5_rejected : make_uci gen_tables x_start (lit "e2e5") = (inl MoveDoesNotExist, Some x_start).
Proof. vm_compute. reflexivity. Qed.
(* so, by C13_make_uci_iff_gen, e2e4 is the text of a legal move of the rules and e2e5 is not *)
Example C13x_e2e4_is_legal_in_the_rules : exists u, In u (legal_moves (abs x_start)) /\ Rules.uci u = trim (lit "e2e4").
Proof.
  destruct C13x_start_hyps as (W & L & H). apply (C13_make_uci_iff_gen x_start (lit "e2e4") W L H). exact C13x_e2e4_accepted.
Qed.
Example C13x_e2e5_is_not_legal_in_the_rules : ~ exists u, In u (legal_moves (abs x_start)) /\ Rules.uci u = trim (lit "e2e5").
Proof.
  destruct C13x_start_hyps as (W & L & H). intros E. apply (C13_make_uci_iff_gen x_start (lit "e2e5") W L H) in E.
  rewrite C13x_e2e5_rejected in E. discriminate.
Qed.

(* promotion: e7e8 without the letter rejected, with the letter accepted *)
Example C13x_e7e8_rejected : make_uci gen_tables x_promo (lit "e7e8") = (inl MoveDoesNotExist, Some x_promo).
Proof. vm_compute. reflexivity. Qed.
Example C13x_e7e8q_accepted : fst (make_uci gen_tables x_promo (lit "e7e8q")) = inr tt.
Proof. vm_compute. reflexivity. Qed.
Example C13x_e7e8q_successor :
  snd (make_uci gen_tables x_promo (lit "e7e8q")) = Some (board_of_text (lit "4Q2k/8/8/8/8/8/8/4K3 b - - 0 1")).
Proof. vm_compute. reflexivity. Qed.
(* the hypotheses of C13_promotion_letter_required hold for e7e8=Q; those of ..._only_for_promotions for e1e2 + "q" *)
Example C13x_promotion_hyps :
  let u := {| from := 12; to := 4; prom := Some Queen |} in
  In u (pseudo_moves (abs x_promo)) /\ prom u = Some Queen /\ trim (lit "e7e8") = sq_text (from u) ++ sq_text (to u).
Proof. cbv zeta. split; [vm_compute; tauto|]. split; reflexivity. Qed.
Example C13x_e1e2q_rejected : make_uci gen_tables x_promo (lit "e1e2q") = (inl MoveDoesNotExist, Some x_promo).
Proof. vm_compute. reflexivity. Qed.

(* pseudo-legal but illegal: MoveIsNotValid, board unchanged; the same for the SAN conversion *)
Example C13x_pinned_rejected : make_uci gen_tables x_pinned (lit "d1e2") = (inl MoveIsNotValid, Some x_pinned).
Proof. vm_compute. reflexivity. Qed.
Example C13x_pinned_san_rejected : uci_to_pgn gen_tables x_pinned (lit "d1e2") = (inl MoveIsNotValid, Some x_pinned).
Proof. vm_compute. reflexivity. Qed.
Example C13x_san_accepted : uci_to_pgn gen_tables x_start (lit "g1f3") = (inr (lit "Nf3"), Some x_start).
Proof. vm_compute. reflexivity. Qed.

(* lists: three legal moves are played; with a fourth, illegal one the whole call is undone *)
Example C13x_line_accepted :
  make_all_uci gen_tables x_start [lit "e2e4"; lit "e7e5"; lit "g1f3"]
  = (inr tt, Some (board_of_text (lit "rnbqkbnr/pppp1ppp/8/4p3/4P3/5N2/PPPP1PPP/RNBQKB1R b KQkq - 1 2"))).
Proof. vm_compute. reflexivity. Qed.
Example C13x_line_rejected :
  make_all_uci gen_tables x_start [lit "e2e4"; lit "e7e5"; lit "g1f3"; lit "e8e6"] = (inl MoveDoesNotExist, Some x_start).
Proof. vm_compute. reflexivity. Qed.
Example C13x_line_is_legal_in_the_rules :
  exists us, legal_text_line (abs x_start) [lit "e2e4"; lit "e7e5"; lit "g1f3"] us.
Proof.
  destruct C13x_start_hyps as (W & L & _).
  apply (C13_make_all_uci_iff_gen x_start [lit "e2e4"; lit "e7e5"; lit "g1f3"] W L); [vm_compute; discriminate|].
  now rewrite C13x_line_accepted.
Qed.

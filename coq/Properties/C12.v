(* C12: FEN reading and writing are exact, inverse to each other, and total.  Pinned statements. *)
Require Import Ink.Lib.Str.
Require Import NArith ZArith List Bool.
Require Import Ink.Lib.Bits Ink.Model.Board Ink.Model.Fen Ink.Spec.Rules Ink.Spec.FenSpec Ink.Proofs.Abs
               Ink.Proofs.StrProofs Ink.Proofs.FenProofs.
Import ListNotations.
Open Scope N_scope.

(* ---------- totality ---------- *)
(* Reading has no panic outcome in the model: from_fen_string : str -> fen_err + board is a total function. *)
Theorem C12_total : forall s, (exists e, from_fen_string s = inl e) \/ (exists b, from_fen_string s = inr b).
Proof. exact FenProofs.C12_total. Qed.
Print Assumptions C12_total.

(* Writing panics (None) only when a white and a black piece share a square. *)
Theorem C12_print_total : forall b, disjoint b -> print_fen b <> None.
Proof. exact FenProofs.C12_print_total. Qed.
Print Assumptions C12_print_total.

Theorem C12_wf_disjoint : forall b, wf b = true -> disjoint b.
Proof. exact FenProofs.C12_wf_disjoint. Qed.
Print Assumptions C12_wf_disjoint.

Theorem C12_parsed_disjoint : forall s b, from_fen_string s = inr b -> disjoint b.
Proof. exact FenProofs.C12_parsed_disjoint. Qed.
Print Assumptions C12_parsed_disjoint.

(* ---------- decoding is exact ---------- *)
Theorem C12_decode_exact : forall s b, from_fen_string s = inr b -> s <> lit "startpos" ->
  exists p, FenSpec.read s = Some p /\ abs b = norm_a8 p /\ disjoint b.
Proof. exact FenProofs.C12_decode_exact. Qed.
Print Assumptions C12_decode_exact.

Theorem C12_decode_exact_not_a8 : forall s b, from_fen_string s = inr b -> s <> lit "startpos" ->
  nth 3 (split_on 32 s) [] <> lit "a8" -> FenSpec.read s = Some (abs b) /\ disjoint b.
Proof. exact FenProofs.C12_decode_exact_not_a8. Qed.
Print Assumptions C12_decode_exact_not_a8.

Theorem C12_norm_a8_id : forall p, epsq p <> Some 0%Z -> norm_a8 p = p.
Proof. exact norm_a8_id. Qed.
Print Assumptions C12_norm_a8_id.

Theorem C12_startpos : from_fen_string (lit "startpos") = from_fen_string STARTPOS.
Proof. exact FenProofs.C12_startpos. Qed.
Print Assumptions C12_startpos.

(* ---------- the accepted language ---------- *)
Theorem C12_accepts : forall s p, FenSpec.read s = Some p -> halfc p < 2^32 /\ fullc p < 2^32 ->
  exists b, from_fen_string s = inr b.
Proof. exact FenProofs.C12_accepts. Qed.
Print Assumptions C12_accepts.

Theorem C12_rejects : forall s, FenSpec.read s = None -> s <> lit "startpos" -> exists e, from_fen_string s = inl e.
Proof. exact FenProofs.C12_rejects. Qed.
Print Assumptions C12_rejects.

Theorem C12_accept_iff : forall s, s <> lit "startpos" ->
  ((exists b, from_fen_string s = inr b) <-> (exists p, FenSpec.read s = Some p /\ halfc p < 2^32 /\ fullc p < 2^32)).
Proof. exact FenProofs.C12_accept_iff. Qed.
Print Assumptions C12_accept_iff.

(* ---------- round trips ---------- *)
Theorem C12_print_parse : forall b, boards_ok b = true -> turn b < 2 -> ep b < 64 -> half b < 2^32 -> full b < 2^32 ->
  exists s, print_fen b = Some s /\ from_fen_string s = inr b.
Proof. exact FenProofs.C12_print_parse. Qed.
Print Assumptions C12_print_parse.

Theorem C12_print_parse_wf : forall b, wf b = true -> half b < 2^32 -> full b < 2^32 ->
  exists s, print_fen b = Some s /\ from_fen_string s = inr b.
Proof. exact FenProofs.C12_print_parse_wf. Qed.
Print Assumptions C12_print_parse_wf.

Theorem C12_parse_print : forall s b, from_fen_string s = inr b ->
  exists s', print_fen b = Some s' /\ s' = FenSpec.render (abs b).
Proof. exact FenProofs.C12_parse_print. Qed.
Print Assumptions C12_parse_print.

Theorem C12_parse_print_canon : forall s b p, from_fen_string s = inr b -> FenSpec.read s = Some p -> epsq p <> Some 0%Z ->
  print_fen b = Some (canon_of s).
Proof. exact FenProofs.C12_parse_print_canon. Qed.
Print Assumptions C12_parse_print_canon.

Theorem C12_parse_print_id : forall s b p, from_fen_string s = inr b -> FenSpec.read s = Some p -> epsq p <> Some 0%Z ->
  length (split_on 32 s) = 6%nat ->
  no_leading_zero (nth 4 (split_on 32 s) []) -> no_leading_zero (nth 5 (split_on 32 s) []) ->
  print_fen b = Some s.
Proof. exact FenProofs.C12_parse_print_id. Qed.
Print Assumptions C12_parse_print_id.

(* the spec's reader and renderer are mutually inverse *)
Theorem C12_spec_render_read : forall p, pos_ok p -> FenSpec.read (FenSpec.render p) = Some p.
Proof. exact FenProofs.C12_spec_render_read. Qed.
Print Assumptions C12_spec_render_read.

Theorem C12_spec_read_render : forall s p, FenSpec.read s = Some p -> FenSpec.render p = canon_of s.
Proof. exact FenProofs.C12_spec_read_render. Qed.
Print Assumptions C12_spec_read_render.

(* ---------- concrete witnesses (vm_compute) ---------- *)
Definition accepted_as (s s' : str) : Prop :=
  match from_fen_string s, FenSpec.read s with
  | inr b, Some p => abs b = p /\ print_fen b = Some s' /\ FenSpec.render p = s'
  | _, _ => False
  end.
Definition rejected_with (s : str) (e : fen_err) (gram : bool) : Prop :=
  from_fen_string s = inl e /\ grammatical s = gram.

(* the start position, both spellings *)
Example ex_startpos : accepted_as STARTPOS STARTPOS /\ from_fen_string (lit "startpos") = from_fen_string STARTPOS.
Proof. vm_compute. repeat split. Qed.

(* a 4-field FEN: the clocks default to 0 and 1 *)
Example ex_four_fields :
  accepted_as (lit "4k3/8/8/8/8/8/8/4K3 w - -") (lit "4k3/8/8/8/8/8/8/4K3 w - - 0 1") /\
  match from_fen_string (lit "4k3/8/8/8/8/8/8/4K3 w - -") with inr b => half b = 0 /\ full b = 1 | inl _ => False end.
Proof. vm_compute. repeat split. Qed.

(* e.p. square and partial castling rights *)
Example ex_ep_partial_rights :
  let s := lit "rnbqkbnr/pppp1ppp/8/4p3/4P3/8/PPPP1PPP/RNBQK2R b Kq e3 0 2" in
  accepted_as s s /\
  match from_fen_string s with
  | inr b => ep b = 44 /\ turn b = BLACK /\ ks (white b) = true /\ qs (white b) = false /\ ks (black b) = false /\ qs (black b) = true
             /\ half b = 0 /\ full b = 2 /\ piece_at (white b) 36 = PAWN /\ piece_at (black b) 28 = PAWN /\ piece_at (white b) 60 = KING
  | inl _ => False end.
Proof. vm_compute. repeat split. Qed.

(* leading zeros in the clocks are accepted and normalised by the writer *)
Example ex_leading_zero :
  accepted_as (lit "4k3/8/8/8/8/8/8/4K3 b - - 007 0012") (lit "4k3/8/8/8/8/8/8/4K3 b - - 7 12").
Proof. vm_compute. repeat split. Qed.

(* the largest clocks *)
Example ex_max_clock :
  accepted_as (lit "4k3/8/8/8/8/8/8/4K3 w - - 4294967295 4294967295") (lit "4k3/8/8/8/8/8/8/4K3 w - - 4294967295 4294967295").
Proof. vm_compute. repeat split. Qed.

(* the a8 wrinkle: grammatical, accepted, but the e.p. square is lost (NO_SQUARE = a8 = 0) *)
Example ex_a8 :
  match from_fen_string (lit "4k3/8/8/8/8/8/8/4K3 w - a8 0 1"), FenSpec.read (lit "4k3/8/8/8/8/8/8/4K3 w - a8 0 1") with
  | inr b, Some p => epsq p = Some 0%Z /\ ep b = 0 /\ abs b = norm_a8 p /\ print_fen b = Some (lit "4k3/8/8/8/8/8/8/4K3 w - - 0 1")
  | _, _ => False end.
Proof. vm_compute. repeat split. Qed.

(* rejected witnesses *)
Example ex_clock_overflow : rejected_with (lit "4k3/8/8/8/8/8/8/4K3 w - - 0 99999999999") InvalidCapture true.
Proof. vm_compute. split; reflexivity. Qed.
Example ex_clock_2_32 : rejected_with (lit "4k3/8/8/8/8/8/8/4K3 w - - 4294967296 1") InvalidCapture true.
Proof. vm_compute. split; reflexivity. Qed.
Example ex_rank_nine : rejected_with (lit "4k3/7pp/8/8/8/8/8/4K3 w - - 0 1") RankWithInvalidPieceCount false.
Proof. vm_compute. split; reflexivity. Qed.
Example ex_rank_seven : rejected_with (lit "4k3/7/8/8/8/8/8/4K3 w - - 0 1") RankWithInvalidPieceCount false.
Proof. vm_compute. split; reflexivity. Qed.
Example ex_adjacent_digits : rejected_with (lit "4k3/44/8/8/8/8/8/4K3 w - - 0 1") ConcurrentNumbers false.
Proof. vm_compute. split; reflexivity. Qed.
Example ex_castling_order : rejected_with (lit "4k3/8/8/8/8/8/8/4K3 w QK - 0 1") InvalidCapture false.
Proof. vm_compute. split; reflexivity. Qed.
Example ex_ep_e9 : rejected_with (lit "4k3/8/8/8/8/8/8/4K3 w - e9 0 1") InvalidCapture false.
Proof. vm_compute. split; reflexivity. Qed.
Example ex_five_fields : rejected_with (lit "4k3/8/8/8/8/8/8/4K3 w - - 0") InvalidCapture false.
Proof. vm_compute. split; reflexivity. Qed.
Example ex_double_space : rejected_with (lit "4k3/8/8/8/8/8/8/4K3  w - - 0 1") InvalidCapture false.
Proof. vm_compute. split; reflexivity. Qed.
Example ex_bad_side : rejected_with (lit "4k3/8/8/8/8/8/8/4K3 x - - 0 1") InvalidCapture false.
Proof. vm_compute. split; reflexivity. Qed.
Example ex_illegal_char : rejected_with (lit "4k3/8/8/8/8/8/8/4X3 w - - 0 1") InvalidCapture false.
Proof. vm_compute. split; reflexivity. Qed.
Example ex_seven_ranks : rejected_with (lit "4k3/8/8/8/8/8/4K3 w - - 0 1") InvalidCapture false.
Proof. vm_compute. split; reflexivity. Qed.
Example ex_empty : rejected_with [] InvalidCapture false.
Proof. vm_compute. split; reflexivity. Qed.
Example ex_plus_clock : rejected_with (lit "4k3/8/8/8/8/8/8/4K3 w - - +1 1") InvalidCapture false.
Proof. vm_compute. split; reflexivity. Qed.

(* a board with a white and a black piece on one square is where the writer panics *)
Example ex_print_panics :
  print_fen {| white := or_occ empty_pstate PAWN (bit 8); black := or_occ empty_pstate KNIGHT (bit 8);
               turn := 0; ep := 0; full := 1; half := 0 |} = None.
Proof. vm_compute. reflexivity. Qed.

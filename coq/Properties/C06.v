(* C06 - Position hashes: incremental equals recomputed, and identifies the position.
   Model: Model/Board.v (zobrist_hash, pawn_hash, zobrist_xor, make, gen_pseudo; board/src/board.rs,
   board/src/board/zobrist.rs).  Only pinned statements here; proofs are in Proofs/ZobristProofs.v.

   Side conditions (all executable booleans, defined in Proofs/ZobristProofs.v):
     keys_rows_ok T  shape of the key tables (14 x 64, 8) and rows 0 and 7 (NO_PIECE) are all zero
     gen_masks_ok T  the castling EMPTY masks cover the square the rook lands on (d1 f1 d8 f8); a8 (= NO_SQUARE) is on RANK_8
     keys_ok T       the 781 keys are non-zero and pairwise distinct
       -- the three are re-checked on the regenerated tables by C06_keys_ok_gen --
     wf b            Model/Board.v
     castle_wf b     a castling right is only held with king and rook on their home squares
     ep_wf b         if an e.p. square is set, the capturable pawn stands directly behind it
       -- FEN parsing checks neither castle_wf nor ep_wf; the Example below shows a position satisfying all -- *)
Require Import Ink.Lib.Str.
Require Import NArith List Bool.
Import ListNotations.
Require Import Ink.Lib.Bits Ink.Model.Tables Ink.Model.Board Ink.Model.Fen Ink.Proofs.ZobristProofs.
Require Ink.Gen.Tables.
Open Scope N_scope.

(* ---- incremental update = recomputation, for every generated (pseudo-legal, hence every legal) move ---- *)
Theorem C06_incremental : forall T b m b' dx dp,
  keys_rows_ok T = true -> gen_masks_ok T = true ->
  wf b = true -> castle_wf b = true -> ep_wf b = true ->
  In m (gen_pseudo T b) -> make b m = Some b' -> zobrist_xor T m = Some (dx, dp) ->
  zobrist_hash T b' = N.lxor (zobrist_hash T b) dx /\ pawn_hash T b' = N.lxor (pawn_hash T b) dp.
Proof. exact incremental. Qed.
Print Assumptions C06_incremental.

(* zobrist_xor never reaches its panic arm on a generated move *)
Theorem C06_xor_no_panic : forall T b m,
  wf b = true -> castle_wf b = true -> gen_masks_ok T = true -> In m (gen_pseudo T b) ->
  exists dx dp, zobrist_xor T m = Some (dx, dp).
Proof. exact xor_no_panic. Qed.
Print Assumptions C06_xor_no_panic.

(* ---- the hash is a function of (placement, side to move, rights, e.p. file): no clocks, no e.p. rank ---- *)
Theorem C06_function_of_key : forall T b1 b2,
  (key_of b1 = key_of b2 -> zobrist_hash T b1 = zobrist_hash T b2) /\
  (pawn_key_of b1 = pawn_key_of b2 -> pawn_hash T b1 = pawn_hash T b2).
Proof. exact function_of_key_both. Qed.
Print Assumptions C06_function_of_key.

(* ---- two lines of play from b that end in positions with the same key thread to the same hashes,
        which are the from-scratch hashes of the final position ---- *)
Theorem C06_transpositions : forall T b ms1 ms2 e1 e2,
  keys_rows_ok T = true -> gen_masks_ok T = true ->
  line T b ms1 e1 -> line T b ms2 e2 -> key_of e1 = key_of e2 ->
  thread T (zobrist_hash T b, pawn_hash T b) ms1 = thread T (zobrist_hash T b, pawn_hash T b) ms2 /\
  thread T (zobrist_hash T b, pawn_hash T b) ms1 = Some (zobrist_hash T e1, pawn_hash T e1).
Proof. exact transpositions. Qed.
Print Assumptions C06_transpositions.

(* ---- changing exactly one component changes the hash ---- *)
Theorem C06_single_component : forall T b1 b2,
  keys_ok T = true -> keys_rows_ok T = true -> wf b1 = true -> wf b2 = true ->
  differ_in_exactly_one_component b1 b2 -> zobrist_hash T b1 <> zobrist_hash T b2.
Proof. exact single_component. Qed.
Print Assumptions C06_single_component.

(* ---- the regenerated obligation: the keys and masks of the current /repo tree satisfy the side conditions ---- *)
Theorem C06_keys_ok_gen :
  keys_ok Ink.Gen.Tables.tables = true /\ keys_rows_ok Ink.Gen.Tables.tables = true /\
  gen_masks_ok Ink.Gen.Tables.tables = true.
Proof. exact gen_tables_ok. Qed.
Print Assumptions C06_keys_ok_gen.

(* ---- a concrete instance: partial rights (white K only, black q only); Ra1xa8 captures the rook on its home
        square, which costs Black the queen-side right.  All hypotheses of C06_incremental hold and both sides
        compute to the same numbers. ---- *)
Definition ex_board : board :=
  match from_fen_string (lit "r3k2r/1pp5/8/8/8/8/5PP1/R3K2R w Kq - 3 17") with
  | inr b => b
  | inl _ => {| white := empty_pstate; black := empty_pstate; turn := 0; ep := 0; full := 0; half := 0 |}
  end.
Definition ex_move : option move :=
  find (fun m => (src m =? A1) && (dst m =? A8)) (gen_pseudo Ink.Gen.Tables.tables ex_board).

Example C06_example_rook_takes_home_rook :
  wf ex_board = true /\ castle_wf ex_board = true /\ ep_wf ex_board = true /\
  rights ex_board = [false; true; true; false] /\
  exists m b' dx dp,
    In m (gen_pseudo Ink.Gen.Tables.tables ex_board) /\
    (src m, dst m, piece_moved m, piece_attacked m, opp_lost_qs m) = (A1, A8, ROOK, ROOK, true) /\
    make ex_board m = Some b' /\ zobrist_xor Ink.Gen.Tables.tables m = Some (dx, dp) /\
    rights b' = [false; true; false; false] /\
    zobrist_hash Ink.Gen.Tables.tables b' = 16025201733369870117 /\
    N.lxor (zobrist_hash Ink.Gen.Tables.tables ex_board) dx = 16025201733369870117 /\
    pawn_hash Ink.Gen.Tables.tables b' = 5800438998382167241 /\
    N.lxor (pawn_hash Ink.Gen.Tables.tables ex_board) dp = 5800438998382167241.
Proof.
  split; [vm_compute; reflexivity|]. split; [vm_compute; reflexivity|]. split; [vm_compute; reflexivity|].
  split; [vm_compute; reflexivity|].
  destruct ex_move as [m|] eqn:Em; [|vm_compute in Em; discriminate].
  destruct (find_some _ _ Em) as [Hin _]. vm_compute in Em. injection Em as <-.
  eexists. eexists. eexists. eexists. split; [exact Hin|].
  split; [reflexivity|]. split; [vm_compute; reflexivity|]. split; [vm_compute; reflexivity|].
  repeat split; vm_compute; reflexivity.
Qed.
Print Assumptions C06_example_rook_takes_home_rook.

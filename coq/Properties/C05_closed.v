(* C05, last sentence of the property: "a position has no legal moves exactly when it is checkmate (in check) or
   stalemate (not in check), and the two are never confused" -- with the generator hypothesis of C05_terminal
   discharged by C01 (generator = rules) and C02 (make = apply): Properties/C01_C02.v.  Pinned here under C05. *)
Require Import Ink.Lib.Str.
Require Import NArith List Bool.
Import ListNotations.
Open Scope N_scope.
Require Import Ink.Model.Tables Ink.Model.Board.
Require Import Ink.Spec.Rules.
Require Import Ink.Proofs.Abs Ink.Proofs.AttackProofs Ink.Proofs.MoveGenProofs.
Require Ink.Gen.Tables.
Require Ink.Properties.C01_C02.

Theorem C05_terminal_closed : forall T, tables_attacks_ok T = true -> tables_movegen_ok T = true ->
  forall b, wf b = true -> legal_pos (abs b) = true ->
  (Rules.checkmate (abs b) = true <-> gen_legal T b = [] /\ is_current_in_check T b = true) /\
  (Rules.stalemate (abs b) = true <-> gen_legal T b = [] /\ is_current_in_check T b = false) /\
  (gen_legal T b = [] <-> Rules.checkmate (abs b) = true \/ Rules.stalemate (abs b) = true).
Proof. exact C01_C02.C01_terminal_closed. Qed.
Print Assumptions C05_terminal_closed.

(* the tables regenerated from the current tree *)
Theorem C05_terminal_closed_gen : forall b, wf b = true -> legal_pos (abs b) = true ->
  (Rules.checkmate (abs b) = true <-> gen_legal Ink.Gen.Tables.tables b = [] /\ is_current_in_check Ink.Gen.Tables.tables b = true) /\
  (Rules.stalemate (abs b) = true <-> gen_legal Ink.Gen.Tables.tables b = [] /\ is_current_in_check Ink.Gen.Tables.tables b = false) /\
  (gen_legal Ink.Gen.Tables.tables b = [] <-> Rules.checkmate (abs b) = true \/ Rules.stalemate (abs b) = true).
Proof. exact C01_C02.C01_terminal_closed_gen. Qed.
Print Assumptions C05_terminal_closed_gen.

(* never confused: the two are mutually exclusive *)
Theorem C05_never_confused : forall T, tables_attacks_ok T = true -> tables_movegen_ok T = true ->
  forall b, wf b = true -> legal_pos (abs b) = true ->
  ~ (Rules.checkmate (abs b) = true /\ Rules.stalemate (abs b) = true).
Proof.
  intros T OK MK b Hwf Hl [Hc Hs].
  destruct (C01_C02.C01_terminal_closed T OK MK b Hwf Hl) as (H1 & H2 & _).
  apply H1 in Hc. apply H2 in Hs. destruct Hc as [_ Hc]. destruct Hs as [_ Hs]. congruence.
Qed.
Print Assumptions C05_never_confused.

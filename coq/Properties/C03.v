(* C03 - Taking a move back restores the position exactly.
   Model: Model/Board.v (make, unmake, gen_pseudo, gen_nonquiet; board/src/board.rs), Model/Layout.v (the packed
   Move word).  Proofs: Proofs/MakeUnmake.v, Proofs/LayoutProofs.v, Proofs/GenShape.v, Proofs/BitFacts.v.
   Only pinned statements here.

   Equality below is equality of the whole modelled record `board`: 12 piece bitboards, 4 castling rights, side to
   move, e.p. square, full-move number, half-move clock.  Both hashes are functions of that record.

   Side conditions (see the header of Proofs/MakeUnmake.v for why each is needed):
     wf b                    Model/Board.v (only "bitboards < 2^64" and "turn < 2" are used)
     rights_wf b             a held castling right implies king and rook on their home squares; true in the start
                             position and in every position of a game; NOT implied by wf and NOT checked by the FEN
                             reader -- necessary, see C03_needs_rights_wf
     half b < 4096           width of the PREVIOUS_HALFMOVE field -- necessary, see C03_halfmove_refuted_at_4096
     tables_castle_ok T      discharged for the tables of the current tree: gen_tables_castle_ok
   No condition on the e.p. square is needed (C03_bogus_ep_still_restored). *)
Require Import Ink.Lib.Str.
Require Import NArith ZArith List Bool.
Import ListNotations.
Require Import Ink.Lib.Bits Ink.Model.Tables Ink.Model.Board Ink.Model.Fen Ink.Model.Notation Ink.Model.Layout.
Require Ink.Proofs.BitFacts Ink.Proofs.GenShape Ink.Proofs.LayoutProofs Ink.Proofs.MakeUnmake.
Require Ink.Gen.Tables.
Import Ink.Proofs.LayoutProofs Ink.Proofs.MakeUnmake.
Open Scope N_scope.

(* ---- main theorem: every position x every pseudo-legal move x every clock 0..4095, any full-move number ---- *)
Theorem C03_unmake_make : forall (T : Tables.t), tables_castle_ok T = true ->
  forall (b : board) (m : move),
  wf b = true -> rights_wf b = true -> In m (gen_pseudo T b) -> half b < 4096 ->
  exists b', make b m = Some b' /\ unmake b' m = Some b.
Proof. exact MakeUnmake.C03_unmake_make. Qed.
Print Assumptions C03_unmake_make.

(* ---- the same for the moves of the quiescence generator ---- *)
Theorem C03_unmake_make_nonquiet : forall (T : Tables.t), tables_castle_ok T = true ->
  forall (b : board) (m : move),
  wf b = true -> rights_wf b = true -> In m (gen_nonquiet T b) -> half b < 4096 ->
  exists b', make b m = Some b' /\ unmake b' m = Some b.
Proof. exact MakeUnmake.C03_unmake_make_nonquiet. Qed.
Print Assumptions C03_unmake_make_nonquiet.

(* ---- both position hashes come back ---- *)
Theorem C03_hashes : forall (T : Tables.t), tables_castle_ok T = true ->
  forall (b : board) (m : move),
  wf b = true -> rights_wf b = true -> In m (gen_pseudo T b) -> half b < 4096 ->
  exists b' b'', make b m = Some b' /\ unmake b' m = Some b'' /\
                 zobrist_hash T b'' = zobrist_hash T b /\ pawn_hash T b'' = pawn_hash T b.
Proof. exact MakeUnmake.C03_hashes. Qed.
Print Assumptions C03_hashes.

(* ---- whole lines, unmade in reverse order ----
   line_ok T b ms : each move is pseudo-legal in the position where it is made and each position on the way
   satisfies wf, rights_wf, half < 4096 (definition in Proofs/MakeUnmake.v) *)
Theorem C03_line : forall (T : Tables.t), tables_castle_ok T = true ->
  forall (ms : list move) (b b' : board),
  line_ok T b ms -> make_all b ms = Some b' -> unmake_all (Some b') (rev ms) = Some b.
Proof. exact MakeUnmake.C03_line. Qed.
Print Assumptions C03_line.

Theorem C03_line_total : forall (T : Tables.t), tables_castle_ok T = true ->
  forall (ms : list move) (b : board), line_ok T b ms -> exists b', make_all b ms = Some b'.
Proof. exact MakeUnmake.C03_line_total. Qed.
Print Assumptions C03_line_total.

(* ---- for the tables of the current tree the table condition is gone ---- *)
Theorem C03_tables_castle_ok : tables_castle_ok Ink.Gen.Tables.tables = true.
Proof. exact gen_tables_castle_ok. Qed.
Print Assumptions C03_tables_castle_ok.

(* ---- the hypotheses are necessary ---- *)
Theorem C03_needs_rights_wf : exists b m b' b'',
  wf b = true /\ rights_wf b = false /\ half b < 4096 /\ In m (gen_pseudo Ink.Gen.Tables.tables b) /\
  make b m = Some b' /\ unmake b' m = Some b'' /\
  rooks (white b) = 0 /\ rooks (white b'') = bit A1.
Proof. exact MakeUnmake.C03_needs_rights_wf. Qed.
Print Assumptions C03_needs_rights_wf.

Theorem C03_halfmove_refuted_at_4096 : exists b m b' b'',
  wf b = true /\ rights_wf b = true /\ In m (gen_pseudo Ink.Gen.Tables.tables b) /\ half b = 4096 /\
  make b m = Some b' /\ unmake b' m = Some b'' /\ half b'' = 0.
Proof. exact MakeUnmake.C03_halfmove_refuted_at_4096. Qed.
Print Assumptions C03_halfmove_refuted_at_4096.

(* ---- ... and a wrong e.p. square is harmless ---- *)
Theorem C03_bogus_ep_still_restored : exists b m b',
  wf b = true /\ In m (gen_pseudo Ink.Gen.Tables.tables b) /\ ep_attack m = true /\ piece_attacked m = NO_PIECE /\
  make b m = Some b' /\ unmake b' m = Some b.
Proof. exact MakeUnmake.C03_bogus_ep_still_restored. Qed.
Print Assumptions C03_bogus_ep_still_restored.

(* ---- the defect fixed by /repo commit 866d7e7, frozen ---- *)
Theorem C03_pinned_loses_bits : prev_half_pinned 130 = 2.
Proof. exact pinned_loses_bits. Qed.
Print Assumptions C03_pinned_loses_bits.

(* ================= the packed Move word ================= *)
Theorem C03_pack_unpack : forall (L : list (N * N)) (m : move),
  layout_ok L = true -> move_in_range m -> unpack L (pack L m) (mvvlva m) = m.
Proof. exact pack_unpack. Qed.
Print Assumptions C03_pack_unpack.

Theorem C03_pack_inj : forall (L : list (N * N)) (m1 m2 : move),
  layout_ok L = true -> move_in_range m1 -> move_in_range m2 ->
  pack L m1 = pack L m2 -> mvvlva m1 = mvvlva m2 -> m1 = m2.
Proof. exact pack_inj. Qed.
Print Assumptions C03_pack_inj.

Theorem C03_pack_lt_2_64 : forall (L : list (N * N)) (m : move),
  layout_ok L = true -> move_in_range m -> pack L m < 2 ^ 64.
Proof. exact pack_lt_2_64. Qed.
Print Assumptions C03_pack_lt_2_64.

Theorem C03_gen_move_in_range : forall (T : Tables.t),
  tables_bounded T = true -> tables_geom_ok T = true ->
  forall (b : board) (m : move), wf b = true -> In m (gen_pseudo T b) -> move_in_range m.
Proof. exact gen_move_in_range. Qed.
Print Assumptions C03_gen_move_in_range.

(* the packed word alone identifies a generated move (its score field is a function of the packed fields) *)
Theorem C03_gen_pack_inj : forall (T : Tables.t),
  tables_bounded T = true -> tables_geom_ok T = true ->
  forall (L : list (N * N)) (b1 b2 : board) (m1 m2 : move),
  layout_ok L = true -> wf b1 = true -> wf b2 = true ->
  In m1 (gen_pseudo T b1) -> In m2 (gen_pseudo T b2) -> pack L m1 = pack L m2 -> m1 = m2.
Proof. exact gen_pack_inj. Qed.
Print Assumptions C03_gen_pack_inj.

Theorem C03_gen_layout_ok : layout_ok (layout Ink.Gen.Tables.tables) = true.
Proof. exact gen_layout_ok. Qed.
Print Assumptions C03_gen_layout_ok.

Theorem C03_gen_tables_bounded : tables_bounded Ink.Gen.Tables.tables = true.
Proof. exact gen_tables_bounded. Qed.
Print Assumptions C03_gen_tables_bounded.

Theorem C03_gen_tables_geom_ok : tables_geom_ok Ink.Gen.Tables.tables = true.
Proof. exact gen_tables_geom_ok. Qed.
Print Assumptions C03_gen_tables_geom_ok.

(* ================= the hypotheses are satisfiable on real positions ================= *)
Definition startpos_board : board := board_of_text STARTPOS.
Definition kiwipete_board : board :=
  board_of_text (lit "r3k2r/p1ppqpb1/bn2pnp1/3PN3/1p2P3/2N2Q1p/PPPBBPPP/R3K2R w KQkq - 0 1").
Definition ep_board : board :=
  board_of_text (lit "rnbqkbnr/ppp1p1pp/8/3pPp2/8/8/PPPP1PPP/RNBQKBNR w KQkq f6 130 3").

Example C03_hyps_startpos :
  wf startpos_board = true /\ rights_wf startpos_board = true /\ (half startpos_board <? 4096) = true /\
  length (gen_pseudo Ink.Gen.Tables.tables startpos_board) = 20%nat.
Proof. vm_compute. repeat split. Qed.

(* castling both ways, captures, 48 moves *)
Example C03_hyps_kiwipete :
  wf kiwipete_board = true /\ rights_wf kiwipete_board = true /\ (half kiwipete_board <? 4096) = true /\
  length (gen_pseudo Ink.Gen.Tables.tables kiwipete_board) = 48%nat /\
  existsb castle (gen_pseudo Ink.Gen.Tables.tables kiwipete_board) = true.
Proof. vm_compute. repeat split. Qed.

(* an en-passant capture is available, clock 130 (>= 128) *)
Example C03_hyps_ep :
  wf ep_board = true /\ rights_wf ep_board = true /\ (half ep_board <? 4096) = true /\ half ep_board = 130 /\
  existsb ep_attack (gen_pseudo Ink.Gen.Tables.tables ep_board) = true.
Proof. vm_compute. repeat split. Qed.

(* a line of three moves from the start position satisfies line_ok *)
Definition first_move (b : board) (u : str) : move := pick_move b (fun m => str_eqb (to_uci m) u).
Example C03_line_example :
  let m1 := first_move startpos_board (lit "e2e4") in
  let b1 := after_make startpos_board m1 in
  let m2 := first_move b1 (lit "d7d5") in
  let b2 := after_make b1 m2 in
  let m3 := first_move b2 (lit "e4d5") in
  line_ok Ink.Gen.Tables.tables startpos_board [m1; m2; m3].
Proof.
  cbv zeta. cbn [line_ok].
  repeat match goal with
  | |- _ /\ _ => split
  | |- forall b', _ -> _ => let b' := fresh "b'" in let H := fresh "H" in
      intros b' H; vm_compute in H; injection H as <-
  | |- In _ _ => apply pick_move_In; vm_compute; reflexivity
  | |- True => exact I
  | |- _ = true => vm_compute; reflexivity
  | |- _ < _ => vm_compute; reflexivity
  end.
Qed.

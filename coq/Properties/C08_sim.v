(* Property C08, the relation [sim] of Minimax.ply_unique for chess (needed from depth 3 on).  Lemmas: Proofs/C08Sim.v.
   Only pinned statements.

   Two move orders (pawn move / capture first or last) reach boards that differ only in the half-move clock.  The clock is
   not part of the Zobrist key, so the transposition table identifies them; with sim = equality ply_unique fails at depth 3
   (Properties/C08_closed.v, C08_ply_unique_eq_fails_at_depth_3).  The relation that works:

     sim_clock T r x y :=  x and y agree in both player states (bitboards, castling rights), side to move, e.p. square and
                           full-move number                                                                     [twin]
                           and   half x = half y
                              \/ (half x + r < max_half_moves T /\ half y + r < max_half_moves T)
                              \/ (max_half_moves T <= half x /\ max_half_moves T <= half y)                      [clock_rel]

   Where the clock is read: only `evaluate(.., legal_moves_remaining = true)` (the fifty-move draw at
   max_half_moves <= half; 100 in the pinned tree), i.e. the stand-pat / static value.  Every move of the capture generator
   resets the clock (C08_capture_moves_reset_clock), so below a horizon node all clocks are 0 and the capture search of
   clock twins runs on EQUAL boards (C08_noisy_succs_of_clock_twins): the margin counts the plies of the main search only,
   no allowance for the capture search.  The margin is sharp (C08_clock_margin_needed).

   With sim := sim_clock the remaining premise on keys is the boolean ply_unique_clock_check T D root:
     for all tree nodes (i, x), (j, y) with i, j <= D:  key x = key y  ->  i = j  and  sim_clockb (D - i) x y.
   It fails exactly when a key occurs at two plies or when two boards of one ply that are NOT clock twins (or are twins
   across the fifty-move limit) share a key: a 64-bit Zobrist collision remains a premise, now inside the checker.
   In the forms for an arbitrary engine state, [history_fresh] (Properties/C08_closed.v) stays a non-boolean premise; after
   `position fen X` it is implied by keys_nonzero_check. *)
Require Import Ink.Lib.Str.
Require Import NArith ZArith List Bool Lia.
Import ListNotations.
Require Import Ink.Lib.Bits Ink.Model.Tables Ink.Model.Board Ink.Model.Fen Ink.Model.History Ink.Model.Heuristic Ink.Model.UciTx
        Ink.Model.Search.
Require Import Ink.Spec.Minimax.
Require Import Ink.Proofs.AttackProofs Ink.Proofs.MoveGenProofs.
Require Import Ink.Proofs.SearchProofs Ink.Proofs.SessionProofs Ink.Proofs.ChessGame Ink.Proofs.SearchRefine Ink.Proofs.C08Chess.
Require Import Ink.Proofs.C08Closed Ink.Proofs.C08Sim.
Open Scope N_scope.

(* ================================================================== *)
(* 1. the relation                                                     *)

Theorem C08_sim_clock_def : forall (T : Tables.t) (r : nat) (x y : board),
  sim_clock T r x y <->
  (white x = white y /\ black x = black y /\ turn x = turn y /\ ep x = ep y /\ full x = full y) /\
  (half x = half y \/
   (half x + N.of_nat r < max_half_moves T /\ half y + N.of_nat r < max_half_moves T) \/
   (max_half_moves T <= half x /\ max_half_moves T <= half y)).
Proof. exact sim_clock_def. Qed.
Print Assumptions C08_sim_clock_def.

(* related boards have the same key (every table set): the transposition table cannot tell them apart *)
Theorem C08_sim_clock_same_key : forall (T : Tables.t) (r : nat) (x y : board),
  sim_clock T r x y -> zobrist_hash T x = zobrist_hash T y.
Proof. exact sim_clock_same_key. Qed.
Print Assumptions C08_sim_clock_same_key.

Theorem C08_sim_clock_refl : forall (T : Tables.t) (r : nat) (x : board), sim_clock T r x x.
Proof. exact sim_clock_refl. Qed.
Print Assumptions C08_sim_clock_refl.

Theorem C08_sim_clock_sym : forall (T : Tables.t) (r : nat) (x y : board), sim_clock T r x y -> sim_clock T r y x.
Proof. exact sim_clock_sym. Qed.
Print Assumptions C08_sim_clock_sym.

Theorem C08_sim_clock_trans : forall (T : Tables.t) (r : nat) (x y z : board),
  sim_clock T r x y -> sim_clock T r y z -> sim_clock T r x z.
Proof. exact sim_clock_trans. Qed.
Print Assumptions C08_sim_clock_trans.

(* ================================================================== *)
(* 2. the game of Proofs/ChessGame.v on related boards                 *)

(* the move generator: same moves in the same order, only the 12-bit prev_half field of the Move differs *)
Theorem C08_gen_pseudo_any_clock : forall (T : Tables.t) (b : board) (h : N),
  gen_pseudo T (set_half b h) = map (set_ph (h mod 4096)) (gen_pseudo T b).
Proof. exact gen_pseudo_sh. Qed.
Print Assumptions C08_gen_pseudo_any_clock.

Theorem C08_make_any_clock : forall (b : board) (h p : N) (m : move),
  make (set_half b h) (set_ph p m) = option_map (fun q => set_half q (if half_reset m then 0 else h + 1)) (make b m).
Proof. exact make_sh. Qed.
Print Assumptions C08_make_any_clock.

(* successors: related pairwise, in generation order, with one ply less *)
Theorem C08_succs_of_clock_twins : forall (T : Tables.t) (k : nat) (x y : board),
  sim_clock T (S k) x y -> Forall2 (sim_clock T k) (ChessGame.succs T x) (ChessGame.succs T y).
Proof. exact sim_clock_succs. Qed.
Print Assumptions C08_succs_of_clock_twins.

(* every capture / promotion / e.p. move of the capture generator resets the clock ... *)
Theorem C08_capture_moves_reset_clock : forall (T : Tables.t) (b : board) (m : move),
  In m (gen_nonquiet T b) -> half_reset m = true.
Proof. exact nonquiet_reset. Qed.
Print Assumptions C08_capture_moves_reset_clock.

(* ... so the capture search of clock twins continues on EQUAL boards, whatever the two clocks are *)
Theorem C08_noisy_succs_of_clock_twins : forall (T : Tables.t) (x y : board),
  twin x y -> ChessGame.noisy_succs T x = ChessGame.noisy_succs T y.
Proof. exact sim_clock_noisy_succs. Qed.
Print Assumptions C08_noisy_succs_of_clock_twins.

(* what a horizon node reads *)
Theorem C08_leaf_of_clock_twins : forall (T : Tables.t) (x y : board), sim_clock T 0 x y ->
  static_sat T x = static_sat T y /\ ChessGame.terminal T x = ChessGame.terminal T y /\
  ChessGame.noisy_any T x = ChessGame.noisy_any T y /\ ChessGame.noisy_succs T x = ChessGame.noisy_succs T y /\
  qmeasure x = qmeasure y /\ length (ChessGame.succs T x) = length (ChessGame.succs T y).
Proof. exact sim_clock_leaf. Qed.
Print Assumptions C08_leaf_of_clock_twins.

(* sim_nm: the two hypotheses on [sim] of C08_go_depth_closed / C08_reported_score_exact, every table set *)
Theorem C08_sim_clock_nm : forall (T : Tables.t) (r' r : nat) (x y : board), sim_clock T r' x y -> (r <= r')%nat ->
  nm board (ChessGame.succs T) (ChessGame.noisy_succs T) (ChessGame.noisy_any T) (static_sat T) (ChessGame.terminal T)
     ChessGame.qmeasure r x =
  nm board (ChessGame.succs T) (ChessGame.noisy_succs T) (ChessGame.noisy_any T) (static_sat T) (ChessGame.terminal T)
     ChessGame.qmeasure r y.
Proof. exact sim_clock_nm. Qed.
Print Assumptions C08_sim_clock_nm.

Theorem C08_sim_clock_le : forall (T : Tables.t) (r r' : nat) (x y : board),
  (r <= r')%nat -> sim_clock T r' x y -> sim_clock T r x y.
Proof. exact sim_clock_le. Qed.
Print Assumptions C08_sim_clock_le.

(* the margin cannot be lowered: twins with half x + 1 = 100 and half y + 1 < 100 whose values of depth 1 differ
   (the example root of C08_closed.v with clock 99 against clock 40: 420 against 430) *)
Theorem C08_clock_margin_needed : exists x y : board,
  twin x y /\ half x + 1 = max_half_moves GT /\ half y + 1 < max_half_moves GT /\
  nm board (ChessGame.succs GT) (ChessGame.noisy_succs GT) (ChessGame.noisy_any GT) (static_sat GT) (ChessGame.terminal GT)
     ChessGame.qmeasure 1 x <>
  nm board (ChessGame.succs GT) (ChessGame.noisy_succs GT) (ChessGame.noisy_any GT) (static_sat GT) (ChessGame.terminal GT)
     ChessGame.qmeasure 1 y.
Proof. exact clock_margin_needed. Qed.
Print Assumptions C08_clock_margin_needed.

(* ================================================================== *)
(* 3. the checker                                                      *)

Theorem C08_sim_clockb_spec : forall (T : Tables.t) (r : nat) (x y : board), sim_clockb T r x y = true <-> sim_clock T r x y.
Proof. exact sim_clockb_spec. Qed.
Print Assumptions C08_sim_clockb_spec.

Theorem C08_ply_unique_clock_check_sound : forall (T : Tables.t) (D : nat) (root : board),
  ply_unique_clock_check T D root = true ->
  ply_unique board (ChessGame.succs T) (zobrist_hash T) (sim_clock T) D root.
Proof. exact ply_unique_clock_check_sound. Qed.
Print Assumptions C08_ply_unique_clock_check_sound.

(* ================================================================== *)
(* 4. the closed theorems with sim := sim_clock                        *)

(* `go depth dd` from any engine state: every iteration's record is the exact nm d root and its move attains it *)
Theorem C08_go_depth_closed_clock : forall orc : oracle, quiet orc ->
  forall (g : go_params) (st : sstate) (dd : N), g_depth g = Some dd -> plain_go g ->
  goodC (depth_of dd + 130)%nat (s_board st) ->
  ply_unique_clock_check GT (depth_of dd) (s_board st) = true ->
  history_fresh GT (s_history st) (depth_of dd) (s_board st) ->
  root_empty GT (s_board st) = false -> full (s_board st) + N.of_nat (depth_of dd) < 16777216 ->
  Forall (fun it => exists d : nat, (S d <= depth_of dd)%nat /\ exact_rec GT (static_sat GT) (s_board st) d it)
         (fst (go_full GT orc g st)) /\
  (ChessGame.succs GT (s_board st) <> [] ->
   exists it rest, fst (go_full GT orc g st) = it :: rest /\
                   exact_rec GT (static_sat GT) (s_board st) (pred (depth_of dd)) it).
Proof. exact go_depth_closed_clock. Qed.
Print Assumptions C08_go_depth_closed_clock.

Theorem C08_reported_score_exact_clock : forall orc : oracle, quiet orc ->
  forall (g : go_params) (st : sstate) (dd : N), g_depth g = Some dd -> plain_go g ->
  goodC (depth_of dd + 130)%nat (s_board st) ->
  ply_unique_clock_check GT (depth_of dd) (s_board st) = true ->
  history_fresh GT (s_history st) (depth_of dd) (s_board st) ->
  full (s_board st) + N.of_nat (depth_of dd) < 16777216 ->
  ChessGame.succs GT (s_board st) <> [] ->
  exists infos i ponder m q,
    go_msgs GT orc g st = infos ++ [OInfo i; OBestmove (Some (uci_of_move m)) ponder] /\
    forallb is_info infos = true /\
    i_depth i = Some (N.of_nat (depth_of dd)) /\
    i_score i = Some (score_from_value GT
                        (nm board (ChessGame.succs GT) (ChessGame.noisy_succs GT) (ChessGame.noisy_any GT) (static_sat GT)
                            (ChessGame.terminal GT) ChessGame.qmeasure (depth_of dd) (s_board st)) (s_board st)) /\
    (exists pv, i_pv i = Some (uci_of_move m :: pv) /\ ponder = nth_error pv 0) /\
    make (s_board st) m = Some q /\ In q (ChessGame.succs GT (s_board st)) /\
    (- nm board (ChessGame.succs GT) (ChessGame.noisy_succs GT) (ChessGame.noisy_any GT) (static_sat GT) (ChessGame.terminal GT)
          ChessGame.qmeasure (pred (depth_of dd)) q)%Z =
    nm board (ChessGame.succs GT) (ChessGame.noisy_succs GT) (ChessGame.noisy_any GT) (static_sat GT) (ChessGame.terminal GT)
       ChessGame.qmeasure (depth_of dd) (s_board st).
Proof. exact reported_score_exact_clock. Qed.
Print Assumptions C08_reported_score_exact_clock.

(* after `position fen X` (no move list): every premise except `quiet orc` is a boolean computed from X and the go *)
Theorem C08_go_depth_after_position_fen_clock : forall orc : oracle, quiet orc ->
  forall (g : go_params) (f : fen) (st0 : sstate) (dd : N), g_depth g = Some dd -> plain_gob g = true ->
  let root := board_of_fen f in
  let st := set_position_from GT f [] st0 in
  RepetitionInstance.good_c10b GT (depth_of dd + 130) root = true ->
  ply_unique_clock_check GT (depth_of dd) root = true ->
  keys_nonzero_check GT (depth_of dd) root = true ->
  root_empty GT root = false -> (full root + N.of_nat (depth_of dd) <? 16777216) = true ->
  Forall (fun it => exists d : nat, (S d <= depth_of dd)%nat /\ exact_rec GT (static_sat GT) root d it)
         (fst (go_full GT orc g st)) /\
  (ChessGame.succs GT root <> [] ->
   exists it rest, fst (go_full GT orc g st) = it :: rest /\
                   exact_rec GT (static_sat GT) root (pred (depth_of dd)) it).
Proof. exact go_depth_after_position_fen_clock. Qed.
Print Assumptions C08_go_depth_after_position_fen_clock.

(* `position fen X` + `go depth dd` (dd = 3 and every other depth): the last `info` reports depth dd with the score of the
   exact value nm dd X, and `bestmove` attains it.  Premises: the oracle never interrupts; five booleans. *)
Theorem C08_depth3_closed : forall orc : oracle, quiet orc ->
  forall (g : go_params) (f : fen) (st0 : sstate) (dd : N), g_depth g = Some dd -> plain_gob g = true ->
  let root := board_of_fen f in
  let st := set_position_from GT f [] st0 in
  RepetitionInstance.good_c10b GT (depth_of dd + 130) root = true ->
  ply_unique_clock_check GT (depth_of dd) root = true ->
  keys_nonzero_check GT (depth_of dd) root = true ->
  (full root + N.of_nat (depth_of dd) <? 16777216) = true ->
  has_legal_move root = true ->
  exists infos i ponder m q,
    go_msgs GT orc g st = infos ++ [OInfo i; OBestmove (Some (uci_of_move m)) ponder] /\
    forallb is_info infos = true /\
    i_depth i = Some (N.of_nat (depth_of dd)) /\
    i_score i = Some (score_from_value GT
                        (nm board (ChessGame.succs GT) (ChessGame.noisy_succs GT) (ChessGame.noisy_any GT) (static_sat GT)
                            (ChessGame.terminal GT) ChessGame.qmeasure (depth_of dd) root) root) /\
    (exists pv, i_pv i = Some (uci_of_move m :: pv) /\ ponder = nth_error pv 0) /\
    make root m = Some q /\ In q (ChessGame.succs GT root) /\
    (- nm board (ChessGame.succs GT) (ChessGame.noisy_succs GT) (ChessGame.noisy_any GT) (static_sat GT) (ChessGame.terminal GT)
          ChessGame.qmeasure (pred (depth_of dd)) q)%Z =
    nm board (ChessGame.succs GT) (ChessGame.noisy_succs GT) (ChessGame.noisy_any GT) (static_sat GT) (ChessGame.terminal GT)
       ChessGame.qmeasure (depth_of dd) root.
Proof. exact depth3_closed. Qed.
Print Assumptions C08_depth3_closed.

(* any table set that passes the regenerated obligations, any C03 family of sane boards *)
Theorem C08_go_depth_closed_tables_clock : forall (T : Tables.t) (good : nat -> board -> Prop) (Q : nat),
  tables_attacks_ok T = true -> tables_movegen_ok T = true ->
  ZobristProofs.gen_masks_ok T = true -> ZobristProofs.keys_rows_ok T = true -> (0 < win_score T)%Z ->
  C03_family T good Q ->
  (forall n b, good n b -> sane b = true) -> (forall n b, good n b -> 1 <= full b) ->
  (forall n b, good n b -> (- win_score T < ChessGame.static T b < win_score T)%Z) ->
  forall orc : oracle, quiet orc ->
  forall (g : go_params) (st : sstate) (dd : N), g_depth g = Some dd -> plain_go g ->
  good (depth_of dd + S Q)%nat (s_board st) ->
  ply_unique_clock_check T (depth_of dd) (s_board st) = true ->
  history_fresh T (s_history st) (depth_of dd) (s_board st) ->
  root_empty T (s_board st) = false -> inb T (depth_of dd) (s_board st) ->
  Forall (fun it => exists d : nat, (S d <= depth_of dd)%nat /\ exact_rec T (static_sat T) (s_board st) d it)
         (fst (go_full T orc g st)) /\
  (ChessGame.succs T (s_board st) <> [] ->
   exists it rest, fst (go_full T orc g st) = it :: rest /\
                   exact_rec T (static_sat T) (s_board st) (pred (depth_of dd)) it).
Proof. exact go_depth_closed_tables_clock. Qed.
Print Assumptions C08_go_depth_closed_tables_clock.

(* ================================================================== *)
(* 5. the hypotheses are satisfiable: the example of C08_closed.v at depth 3                                           *)

(* K+R+P against K+P, "8/5p2/8/4k3/8/3R4/4P3/4K3 w - - 40 60", depth 3 (2935 tree nodes): equality-sim fails, clock-sim
   passes, all the other booleans of C08_depth3_closed hold *)
Example C08_depth3_hypotheses_satisfiable :
  ply_unique_check GT 3 ex40_root = false /\
  ply_unique_clock_check GT 3 ex40_root = true /\ keys_nonzero_check GT 3 ex40_root = true /\
  RepetitionInstance.good_c10b GT 133 ex40_root = true /\ has_legal_move ex40_root = true /\
  plain_gob ex40_go3 = true /\ (full ex40_root + 3 <? 16777216) = true /\
  length (tree_nodes GT 3 ex40_root) = 2935%nat.
Proof.
  split; [vm_compute; reflexivity|]. split; [vm_compute; reflexivity|]. split; [vm_compute; reflexivity|].
  split; [vm_compute; reflexivity|]. split; [vm_compute; reflexivity|]. split; [vm_compute; reflexivity|].
  split; vm_compute; reflexivity.
Qed.

(* a pair the transposition table identifies: 1. e3 Kf5 2. Rd4 (clock 2) and 1. Rd4 Kf5 2. e3 (clock 0) *)
Example C08_depth3_clock_twins :
  occurs_at GT 3 ex40_root ex40_twin_a = true /\ occurs_at GT 3 ex40_root ex40_twin_b = true /\
  zobrist_hash GT ex40_twin_a = zobrist_hash GT ex40_twin_b /\ ex40_twin_a <> ex40_twin_b /\
  half ex40_twin_a = 2 /\ half ex40_twin_b = 0 /\
  sim_clockb GT 0 ex40_twin_a ex40_twin_b = true.
Proof. exact ex40_twins. Qed.

(* for EVERY quiet oracle and EVERY earlier engine state: `position fen <that>` + `go depth 3` ends with
   `info depth 3 .. score cp 450` and a bestmove m with  - nm 2 (make root m) = 450 = nm 3 root *)
Theorem C08_depth3_example : forall orc : oracle, quiet orc -> forall st0 : sstate,
  exists infos i ponder m q,
    go_msgs GT orc ex40_go3 (set_position_from GT ex40_fen [] st0) =
      infos ++ [OInfo i; OBestmove (Some (uci_of_move m)) ponder] /\
    forallb is_info infos = true /\ i_depth i = Some 3 /\ i_score i = Some (Cp 450) /\
    make ex40_root m = Some q /\
    (- nm board (ChessGame.succs GT) (ChessGame.noisy_succs GT) (ChessGame.noisy_any GT) (static_sat GT) (ChessGame.terminal GT)
          ChessGame.qmeasure 2 q)%Z = 450%Z.
Proof. exact ex40_depth3_reported. Qed.
Print Assumptions C08_depth3_example.

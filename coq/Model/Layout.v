(* The packing of a `Move` into one u64 (`Move.bits`, board/src/board.rs setters/getters) over the masks and
   shifts of board/src/board/constants.rs, which arrive as `layout T : list (mask * shift)` in this order:
     0 piece_moved   1 piece_attacked   2 self_lost_ks   3 self_lost_qs   4 opp_lost_ks   5 opp_lost_qs
     6 castle        7 ep_attack        8 source         9 target        10 halfmove_reset
    11 previous_halfmove   12 previous_ep   13 next_ep   14 promotion   15 side_to_move
   `mvvlva` is a separate field of the Rust struct and is carried alongside.
   No proofs here (Proofs/LayoutProofs.v). *)
Require Import NArith ZArith List Bool.
Require Import Ink.Lib.Bits Ink.Model.Board.
Import ListNotations.
Open Scope N_scope.

Definition lmask (L : list (N * N)) (i : nat) : N := fst (nth i L (0, 0)).
Definition lshift (L : list (N * N)) (i : nat) : N := snd (nth i L (0, 0)).

(* what each setter ORs into `bits` *)
Definition set_value (L : list (N * N)) (i : nat) (v : N) : N := N.shiftl v (lshift L i).   (* bits |= value << SHIFT *)
Definition set_flag (L : list (N * N)) (i : nat) (f : bool) : N := if f then lmask L i else 0. (* bits |= MASK (or nothing) *)
(* set_previous_halfmove after commit 866d7e7: ((value as u64) << SHIFT) & MASK *)
Definition set_masked (L : list (N * N)) (i : nat) (v : N) : N := N.land (N.shiftl v (lshift L i)) (lmask L i).

(* the 16 contributions, in layout order.  `|=` is associative and commutative, so the order in which
   Bitboard::make_move calls the setters (ep_attack, next_ep, piece_moved, piece_attacked, source, target,
   castle, previous_halfmove, previous_ep, promotion, side_to_move, halfmove_reset, opp_lost_.., self_lost_..)
   does not matter; `set_castle_move`/`set_en_passant_attack` receive the mask itself or 0. *)
Definition contributions (L : list (N * N)) (m : move) : list N :=
  [ set_value L 0 (piece_moved m);
    set_value L 1 (piece_attacked m);
    set_flag L 2 (self_lost_ks m);
    set_flag L 3 (self_lost_qs m);
    set_flag L 4 (opp_lost_ks m);
    set_flag L 5 (opp_lost_qs m);
    set_flag L 6 (castle m);
    set_flag L 7 (ep_attack m);
    set_value L 8 (src m);
    set_value L 9 (dst m);
    set_flag L 10 (half_reset m);
    set_masked L 11 (prev_half m);
    set_value L 12 (prev_ep m);
    set_value L 13 (next_ep m);
    set_value L 14 (promo m);
    set_value L 15 (side m) ].

Definition pack (L : list (N * N)) (m : move) : N := fold_right N.lor 0 (contributions L m).

(* the getters: (bits & MASK) >> SHIFT ; the is_* predicates: `!= 0` *)
Definition get_value (L : list (N * N)) (i : nat) (bits : N) : N := N.shiftr (N.land bits (lmask L i)) (lshift L i).
Definition get_flag (L : list (N * N)) (i : nat) (bits : N) : bool := negb (get_value L i bits =? 0).

Definition unpack (L : list (N * N)) (bits : N) (mv : Z) : move :=
  {| piece_moved := get_value L 0 bits; piece_attacked := get_value L 1 bits;
     self_lost_ks := get_flag L 2 bits; self_lost_qs := get_flag L 3 bits;
     opp_lost_ks := get_flag L 4 bits; opp_lost_qs := get_flag L 5 bits;
     castle := get_flag L 6 bits; ep_attack := get_flag L 7 bits;
     src := get_value L 8 bits; dst := get_value L 9 bits;
     half_reset := get_flag L 10 bits; prev_half := get_value L 11 bits;
     prev_ep := get_value L 12 bits; next_ep := get_value L 13 bits;
     promo := get_value L 14 bits; side := get_value L 15 bits;
     mvvlva := mv |}.

(* ---------- sanity of a layout (boolean, checked on the dumped constants by vm_compute) ---------- *)
Definition MIN_WIDTHS : list N := [3; 3; 1; 1; 1; 1; 1; 1; 6; 6; 1; 12; 6; 6; 3; 1].

(* number of ones of the field: the mask must be exactly `width` ones starting at its shift *)
Definition fwidth (e : N * N) : N := N.size (N.shiftr (fst e) (snd e)).
Definition field_ok (e : N * N) (wmin : N) : bool :=
  (fst e =? N.shiftl (N.ones (fwidth e)) (snd e)) && (wmin <=? fwidth e) && (fst e <? 18446744073709551616).

Fixpoint fields_ok (L : list (N * N)) (ws : list N) : bool :=
  match L, ws with
  | [], [] => true
  | e :: L', w :: ws' => field_ok e w && fields_ok L' ws'
  | _, _ => false
  end.

Fixpoint masks_disjoint (L : list (N * N)) : bool :=
  match L with
  | [] => true
  | e :: L' => forallb (fun e' => N.land (fst e) (fst e') =? 0) L' && masks_disjoint L'
  end.

Definition layout_ok (L : list (N * N)) : bool := fields_ok L MIN_WIDTHS && masks_disjoint L.

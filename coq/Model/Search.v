(* Executable model of engine_core/src/engine/search.rs (the search thread: `idle`, `set_position_from`,
   `check_messages`, `reset_for_go`, `go`, `best_move`, `calculate_max_thinking_time`,
   `try_set_pv_from_continuation`, `search_negamax`, `search_quiescence`, `should_check_flags`,
   `filter_search_moves`, `generate_info`, `ValuedMove`), of move_order.rs (MvvLvaMoveOrder), table/killer.rs
   (KillerTable), table/transposition.rs (HashMapTranspositionTable over Model/HashTable.v) and of the part of
   metrics.rs that is printed (`negamax_nodes`, `quiescence_nodes`, `total_nodes`).

   State passing: every function takes the search state and returns the state it leaves behind (in particular
   the BOARD: `self.state.bitboard` is mutated in place by make/unmake).  Everything the run time decides is read
   from an ORACLE: what each drain of the message channel finds, what each reading of the clock returns, and the
   cfg(inkayaku_verif) hook values (poll period, abort test point).

   Conventions.
   * Durations are nanoseconds in N.  Values are i32 in the Rust and unbounded Z here (all values are bounded by
     win_score + a full-move number, see Model/Heuristic.v).  Node counters are u64, unbounded N here.
   * Panics: `make`/`unmake`/`zobrist_xor` = None (the `panic!()` arms of the castle matches, never taken for a
     generated move: C03) set the sticky flag [s_panicked]; the move is skipped.  `HashTable.put` = None
     (`pop_front().unwrap()`, unreachable: C18_no_panic) leaves the table unchanged.  `ply_clock` is the
     release-profile value (2 * fullmove.saturating_sub(1) + turn) as u16; the debug profile panics on the u32
     overflow for a full-move number above 2^31.
   * Out of fuel in the capture search sets the sticky flag [s_fuel_out] and returns leaf 0.
   * [s_out] is the list of emitted messages, NEWEST FIRST.

   NO proofs here (Proofs/SearchProofs.v). *)
Require Import Ink.Lib.Str.
Require Import NArith ZArith List Bool.
Require Import Ink.Lib.Bits Ink.Model.Tables Ink.Model.Board Ink.Model.Fen Ink.Model.Notation Ink.Model.History.
Require Import Ink.Model.Heuristic Ink.Model.UciTx.
Require Ink.Model.HashTable.
Import ListNotations.
Open Scope N_scope.

(* ---------- Move equality: `a.bits == b.bits` (every packed field; `mvvlva` is not part of `bits`) ---------- *)
Definition move_eqb (a b : move) : bool :=
  (piece_moved a =? piece_moved b) && (piece_attacked a =? piece_attacked b)
  && Bool.eqb (self_lost_ks a) (self_lost_ks b) && Bool.eqb (self_lost_qs a) (self_lost_qs b)
  && Bool.eqb (opp_lost_ks a) (opp_lost_ks b) && Bool.eqb (opp_lost_qs a) (opp_lost_qs b)
  && Bool.eqb (castle a) (castle b) && Bool.eqb (ep_attack a) (ep_attack b)
  && (src a =? src b) && (dst a =? dst b)
  && Bool.eqb (half_reset a) (half_reset b) && (prev_half a =? prev_half b) && (prev_ep a =? prev_ep b)
  && (next_ep a =? next_ep b) && (promo a =? promo b) && (side a =? side b).

Definition opt_move_eqb (a : option move) (b : move) : bool :=
  match a with Some x => move_eqb x b | None => false end.

(* ---------- ValuedMove { value, mv, pv_child: Box<Option<ValuedMove>> } ---------- *)
Inductive vmove := VM (value : Z) (mv : option move) (child : option vmove).
Definition vm_value (v : vmove) : Z := match v with VM x _ _ => x end.
Definition vm_mv (v : vmove) : option move := match v with VM _ m _ => m end.
Definition vm_child (v : vmove) : option vmove := match v with VM _ _ c => c end.
Definition leaf (value : Z) : vmove := VM value None None.

(* calculate_principal_variation: walk the pv_child chain, pushing every `Some(mv)` *)
Fixpoint calc_pv (v : vmove) : list move :=
  match v with
  | VM _ m c => (match m with Some x => [x] | None => [] end) ++ (match c with Some c' => calc_pv c' | None => [] end)
  end.

(* ---------- transposition table entries ---------- *)
Inductive node_type := Exact | Lowerbound | Upperbound.
Record tt_entry := { te_mv : vmove; te_hash : N; te_depth : N; te_value : Z; te_type : node_type }.

Definition tt_put (t : HashTable.ht tt_entry) (k : N) (e : tt_entry) : HashTable.ht tt_entry :=
  match HashTable.put tt_entry t k e with Some t' => t' | None => t end.

(* N -> nat with logarithmic stack depth (the capacity is 10^7) *)
Definition nat_of_N (n : N) : nat := match n with N0 => O | Npos p => Pos.iter S O p end.

(* ---------- KillerTable { table: Vec<Move> }; None = Move::default() (bits == 0) ---------- *)
Definition killer_age (l : list (option move)) (plys : nat) : list (option move) := skipn plys l.
(* put: self.table.resize(depth + 1, Move::default()); self.table[depth] = mv;   -- resize TRUNCATES a longer table *)
Definition killer_put (l : list (option move)) (depth : N) (m : move) : list (option move) :=
  let d := N.to_nat depth in
  firstn d (l ++ repeat None (d - length l)) ++ [Some m].
(* get: self.table.get(depth).filter(|mv| mv.bits != 0).copied() *)
Definition killer_get (l : list (option move)) (depth : N) : option move :=
  match nth_error l (N.to_nat depth) with Some (Some m) => Some m | _ => None end.

(* ---------- MvvLvaMoveOrder::sort: stable sort by descending key ---------- *)
Definition order_key (pv_move tt_move killer_move : option move) (m : move) : Z :=
  (mvvlva m + (if opt_move_eqb pv_move m then 900000 else 0)
   + (if opt_move_eqb tt_move m then 800000 else 0)
   + (if opt_move_eqb killer_move m then 700000 else 0))%Z.
Fixpoint insert_desc (key : move -> Z) (x : move) (l : list move) : list move :=
  match l with
  | [] => [x]
  | y :: r => if (key x <? key y)%Z then y :: insert_desc key x r else x :: l
  end.
(* fold_right inserts the LAST element first; an earlier element is put in front of later ones with the same
   key: this is the stable order of `sort_by_key(|mv| Reverse(key))` *)
Definition sort_moves (moves : list move) (pv_move tt_move killer_move : option move) : list move :=
  fold_right (insert_desc (order_key pv_move tt_move killer_move)) [] moves.

(* ---------- what the UCI thread sends to the search thread while it is searching ---------- *)
Inductive msg := MStop | MQuit | MNewGame | MDebug (b : bool) | MPonderHit | MOther.

(* everything decided by the run time *)
Record oracle := {
  abort_at : option (N * N);      (* verif_control::abort_at(): (node count, mode) *)
  poll : N;                       (* verif_control::poll_period(); 100_000 in the product build *)
  inbox : nat -> list msg;        (* what the k-th `check_messages` drains from the channel *)
  elapsed : nat -> N              (* the k-th reading of `self.state.elapsed()`, nanoseconds *)
}.

(* uci::Go, the fields search.rs reads (ponder, movestogo, nodes, mate and infinite are never read) *)
Record go_params := {
  g_searchmoves : list umove;
  g_wtime : option N; g_btime : option N; g_winc : option N; g_binc : option N;     (* nanoseconds *)
  g_depth : option N;
  g_movetime : option N
}.
Definition go_default : go_params :=
  {| g_searchmoves := []; g_wtime := None; g_btime := None; g_winc := None; g_binc := None; g_depth := None; g_movetime := None |}.
Definition set_movetime (g : go_params) (v : option N) : go_params :=
  {| g_searchmoves := g_searchmoves g; g_wtime := g_wtime g; g_btime := g_btime g; g_winc := g_winc g; g_binc := g_binc g;
     g_depth := g_depth g; g_movetime := v |}.

(* ---------- Search { state, options, flags, params } + the output channel + model bookkeeping ---------- *)
Record sstate := {
  s_board : board;
  s_tt : HashTable.ht tt_entry;
  s_killers : list (option move);
  s_history : hist;
  s_pv : option (list move);
  s_nm_nodes : N;
  s_q_nodes : N;
  s_stop : bool;
  s_quit : bool;
  s_reset_next : bool;
  s_ponder_hit : bool;
  s_go : go_params;
  s_pmoves : list move;
  s_debug : bool;
  s_try_prev_pv : bool;
  s_contempt : Z;
  s_out : list omsg;
  s_drains : nat;
  s_reads : nat;
  s_panicked : bool;
  s_fuel_out : bool
}.

Definition set_board (st : sstate) (v : board) : sstate :=
  {| s_board := v; s_tt := s_tt st; s_killers := s_killers st; s_history := s_history st; s_pv := s_pv st; s_nm_nodes := s_nm_nodes st; s_q_nodes := s_q_nodes st; s_stop := s_stop st; s_quit := s_quit st; s_reset_next := s_reset_next st; s_ponder_hit := s_ponder_hit st; s_go := s_go st; s_pmoves := s_pmoves st; s_debug := s_debug st; s_try_prev_pv := s_try_prev_pv st; s_contempt := s_contempt st; s_out := s_out st; s_drains := s_drains st; s_reads := s_reads st; s_panicked := s_panicked st; s_fuel_out := s_fuel_out st |}.
Definition set_tt (st : sstate) (v : HashTable.ht tt_entry) : sstate :=
  {| s_board := s_board st; s_tt := v; s_killers := s_killers st; s_history := s_history st; s_pv := s_pv st; s_nm_nodes := s_nm_nodes st; s_q_nodes := s_q_nodes st; s_stop := s_stop st; s_quit := s_quit st; s_reset_next := s_reset_next st; s_ponder_hit := s_ponder_hit st; s_go := s_go st; s_pmoves := s_pmoves st; s_debug := s_debug st; s_try_prev_pv := s_try_prev_pv st; s_contempt := s_contempt st; s_out := s_out st; s_drains := s_drains st; s_reads := s_reads st; s_panicked := s_panicked st; s_fuel_out := s_fuel_out st |}.
Definition set_killers (st : sstate) (v : list (option move)) : sstate :=
  {| s_board := s_board st; s_tt := s_tt st; s_killers := v; s_history := s_history st; s_pv := s_pv st; s_nm_nodes := s_nm_nodes st; s_q_nodes := s_q_nodes st; s_stop := s_stop st; s_quit := s_quit st; s_reset_next := s_reset_next st; s_ponder_hit := s_ponder_hit st; s_go := s_go st; s_pmoves := s_pmoves st; s_debug := s_debug st; s_try_prev_pv := s_try_prev_pv st; s_contempt := s_contempt st; s_out := s_out st; s_drains := s_drains st; s_reads := s_reads st; s_panicked := s_panicked st; s_fuel_out := s_fuel_out st |}.
Definition set_history (st : sstate) (v : hist) : sstate :=
  {| s_board := s_board st; s_tt := s_tt st; s_killers := s_killers st; s_history := v; s_pv := s_pv st; s_nm_nodes := s_nm_nodes st; s_q_nodes := s_q_nodes st; s_stop := s_stop st; s_quit := s_quit st; s_reset_next := s_reset_next st; s_ponder_hit := s_ponder_hit st; s_go := s_go st; s_pmoves := s_pmoves st; s_debug := s_debug st; s_try_prev_pv := s_try_prev_pv st; s_contempt := s_contempt st; s_out := s_out st; s_drains := s_drains st; s_reads := s_reads st; s_panicked := s_panicked st; s_fuel_out := s_fuel_out st |}.
Definition set_pv (st : sstate) (v : option (list move)) : sstate :=
  {| s_board := s_board st; s_tt := s_tt st; s_killers := s_killers st; s_history := s_history st; s_pv := v; s_nm_nodes := s_nm_nodes st; s_q_nodes := s_q_nodes st; s_stop := s_stop st; s_quit := s_quit st; s_reset_next := s_reset_next st; s_ponder_hit := s_ponder_hit st; s_go := s_go st; s_pmoves := s_pmoves st; s_debug := s_debug st; s_try_prev_pv := s_try_prev_pv st; s_contempt := s_contempt st; s_out := s_out st; s_drains := s_drains st; s_reads := s_reads st; s_panicked := s_panicked st; s_fuel_out := s_fuel_out st |}.
Definition set_nm_nodes (st : sstate) (v : N) : sstate :=
  {| s_board := s_board st; s_tt := s_tt st; s_killers := s_killers st; s_history := s_history st; s_pv := s_pv st; s_nm_nodes := v; s_q_nodes := s_q_nodes st; s_stop := s_stop st; s_quit := s_quit st; s_reset_next := s_reset_next st; s_ponder_hit := s_ponder_hit st; s_go := s_go st; s_pmoves := s_pmoves st; s_debug := s_debug st; s_try_prev_pv := s_try_prev_pv st; s_contempt := s_contempt st; s_out := s_out st; s_drains := s_drains st; s_reads := s_reads st; s_panicked := s_panicked st; s_fuel_out := s_fuel_out st |}.
Definition set_q_nodes (st : sstate) (v : N) : sstate :=
  {| s_board := s_board st; s_tt := s_tt st; s_killers := s_killers st; s_history := s_history st; s_pv := s_pv st; s_nm_nodes := s_nm_nodes st; s_q_nodes := v; s_stop := s_stop st; s_quit := s_quit st; s_reset_next := s_reset_next st; s_ponder_hit := s_ponder_hit st; s_go := s_go st; s_pmoves := s_pmoves st; s_debug := s_debug st; s_try_prev_pv := s_try_prev_pv st; s_contempt := s_contempt st; s_out := s_out st; s_drains := s_drains st; s_reads := s_reads st; s_panicked := s_panicked st; s_fuel_out := s_fuel_out st |}.
Definition set_stop (st : sstate) (v : bool) : sstate :=
  {| s_board := s_board st; s_tt := s_tt st; s_killers := s_killers st; s_history := s_history st; s_pv := s_pv st; s_nm_nodes := s_nm_nodes st; s_q_nodes := s_q_nodes st; s_stop := v; s_quit := s_quit st; s_reset_next := s_reset_next st; s_ponder_hit := s_ponder_hit st; s_go := s_go st; s_pmoves := s_pmoves st; s_debug := s_debug st; s_try_prev_pv := s_try_prev_pv st; s_contempt := s_contempt st; s_out := s_out st; s_drains := s_drains st; s_reads := s_reads st; s_panicked := s_panicked st; s_fuel_out := s_fuel_out st |}.
Definition set_quit (st : sstate) (v : bool) : sstate :=
  {| s_board := s_board st; s_tt := s_tt st; s_killers := s_killers st; s_history := s_history st; s_pv := s_pv st; s_nm_nodes := s_nm_nodes st; s_q_nodes := s_q_nodes st; s_stop := s_stop st; s_quit := v; s_reset_next := s_reset_next st; s_ponder_hit := s_ponder_hit st; s_go := s_go st; s_pmoves := s_pmoves st; s_debug := s_debug st; s_try_prev_pv := s_try_prev_pv st; s_contempt := s_contempt st; s_out := s_out st; s_drains := s_drains st; s_reads := s_reads st; s_panicked := s_panicked st; s_fuel_out := s_fuel_out st |}.
Definition set_reset_next (st : sstate) (v : bool) : sstate :=
  {| s_board := s_board st; s_tt := s_tt st; s_killers := s_killers st; s_history := s_history st; s_pv := s_pv st; s_nm_nodes := s_nm_nodes st; s_q_nodes := s_q_nodes st; s_stop := s_stop st; s_quit := s_quit st; s_reset_next := v; s_ponder_hit := s_ponder_hit st; s_go := s_go st; s_pmoves := s_pmoves st; s_debug := s_debug st; s_try_prev_pv := s_try_prev_pv st; s_contempt := s_contempt st; s_out := s_out st; s_drains := s_drains st; s_reads := s_reads st; s_panicked := s_panicked st; s_fuel_out := s_fuel_out st |}.
Definition set_ponder_hit (st : sstate) (v : bool) : sstate :=
  {| s_board := s_board st; s_tt := s_tt st; s_killers := s_killers st; s_history := s_history st; s_pv := s_pv st; s_nm_nodes := s_nm_nodes st; s_q_nodes := s_q_nodes st; s_stop := s_stop st; s_quit := s_quit st; s_reset_next := s_reset_next st; s_ponder_hit := v; s_go := s_go st; s_pmoves := s_pmoves st; s_debug := s_debug st; s_try_prev_pv := s_try_prev_pv st; s_contempt := s_contempt st; s_out := s_out st; s_drains := s_drains st; s_reads := s_reads st; s_panicked := s_panicked st; s_fuel_out := s_fuel_out st |}.
Definition set_go (st : sstate) (v : go_params) : sstate :=
  {| s_board := s_board st; s_tt := s_tt st; s_killers := s_killers st; s_history := s_history st; s_pv := s_pv st; s_nm_nodes := s_nm_nodes st; s_q_nodes := s_q_nodes st; s_stop := s_stop st; s_quit := s_quit st; s_reset_next := s_reset_next st; s_ponder_hit := s_ponder_hit st; s_go := v; s_pmoves := s_pmoves st; s_debug := s_debug st; s_try_prev_pv := s_try_prev_pv st; s_contempt := s_contempt st; s_out := s_out st; s_drains := s_drains st; s_reads := s_reads st; s_panicked := s_panicked st; s_fuel_out := s_fuel_out st |}.
Definition set_pmoves (st : sstate) (v : list move) : sstate :=
  {| s_board := s_board st; s_tt := s_tt st; s_killers := s_killers st; s_history := s_history st; s_pv := s_pv st; s_nm_nodes := s_nm_nodes st; s_q_nodes := s_q_nodes st; s_stop := s_stop st; s_quit := s_quit st; s_reset_next := s_reset_next st; s_ponder_hit := s_ponder_hit st; s_go := s_go st; s_pmoves := v; s_debug := s_debug st; s_try_prev_pv := s_try_prev_pv st; s_contempt := s_contempt st; s_out := s_out st; s_drains := s_drains st; s_reads := s_reads st; s_panicked := s_panicked st; s_fuel_out := s_fuel_out st |}.
Definition set_debug (st : sstate) (v : bool) : sstate :=
  {| s_board := s_board st; s_tt := s_tt st; s_killers := s_killers st; s_history := s_history st; s_pv := s_pv st; s_nm_nodes := s_nm_nodes st; s_q_nodes := s_q_nodes st; s_stop := s_stop st; s_quit := s_quit st; s_reset_next := s_reset_next st; s_ponder_hit := s_ponder_hit st; s_go := s_go st; s_pmoves := s_pmoves st; s_debug := v; s_try_prev_pv := s_try_prev_pv st; s_contempt := s_contempt st; s_out := s_out st; s_drains := s_drains st; s_reads := s_reads st; s_panicked := s_panicked st; s_fuel_out := s_fuel_out st |}.
Definition set_try_prev_pv (st : sstate) (v : bool) : sstate :=
  {| s_board := s_board st; s_tt := s_tt st; s_killers := s_killers st; s_history := s_history st; s_pv := s_pv st; s_nm_nodes := s_nm_nodes st; s_q_nodes := s_q_nodes st; s_stop := s_stop st; s_quit := s_quit st; s_reset_next := s_reset_next st; s_ponder_hit := s_ponder_hit st; s_go := s_go st; s_pmoves := s_pmoves st; s_debug := s_debug st; s_try_prev_pv := v; s_contempt := s_contempt st; s_out := s_out st; s_drains := s_drains st; s_reads := s_reads st; s_panicked := s_panicked st; s_fuel_out := s_fuel_out st |}.
Definition set_contempt (st : sstate) (v : Z) : sstate :=
  {| s_board := s_board st; s_tt := s_tt st; s_killers := s_killers st; s_history := s_history st; s_pv := s_pv st; s_nm_nodes := s_nm_nodes st; s_q_nodes := s_q_nodes st; s_stop := s_stop st; s_quit := s_quit st; s_reset_next := s_reset_next st; s_ponder_hit := s_ponder_hit st; s_go := s_go st; s_pmoves := s_pmoves st; s_debug := s_debug st; s_try_prev_pv := s_try_prev_pv st; s_contempt := v; s_out := s_out st; s_drains := s_drains st; s_reads := s_reads st; s_panicked := s_panicked st; s_fuel_out := s_fuel_out st |}.
Definition set_out (st : sstate) (v : list omsg) : sstate :=
  {| s_board := s_board st; s_tt := s_tt st; s_killers := s_killers st; s_history := s_history st; s_pv := s_pv st; s_nm_nodes := s_nm_nodes st; s_q_nodes := s_q_nodes st; s_stop := s_stop st; s_quit := s_quit st; s_reset_next := s_reset_next st; s_ponder_hit := s_ponder_hit st; s_go := s_go st; s_pmoves := s_pmoves st; s_debug := s_debug st; s_try_prev_pv := s_try_prev_pv st; s_contempt := s_contempt st; s_out := v; s_drains := s_drains st; s_reads := s_reads st; s_panicked := s_panicked st; s_fuel_out := s_fuel_out st |}.
Definition set_drains (st : sstate) (v : nat) : sstate :=
  {| s_board := s_board st; s_tt := s_tt st; s_killers := s_killers st; s_history := s_history st; s_pv := s_pv st; s_nm_nodes := s_nm_nodes st; s_q_nodes := s_q_nodes st; s_stop := s_stop st; s_quit := s_quit st; s_reset_next := s_reset_next st; s_ponder_hit := s_ponder_hit st; s_go := s_go st; s_pmoves := s_pmoves st; s_debug := s_debug st; s_try_prev_pv := s_try_prev_pv st; s_contempt := s_contempt st; s_out := s_out st; s_drains := v; s_reads := s_reads st; s_panicked := s_panicked st; s_fuel_out := s_fuel_out st |}.
Definition set_reads (st : sstate) (v : nat) : sstate :=
  {| s_board := s_board st; s_tt := s_tt st; s_killers := s_killers st; s_history := s_history st; s_pv := s_pv st; s_nm_nodes := s_nm_nodes st; s_q_nodes := s_q_nodes st; s_stop := s_stop st; s_quit := s_quit st; s_reset_next := s_reset_next st; s_ponder_hit := s_ponder_hit st; s_go := s_go st; s_pmoves := s_pmoves st; s_debug := s_debug st; s_try_prev_pv := s_try_prev_pv st; s_contempt := s_contempt st; s_out := s_out st; s_drains := s_drains st; s_reads := v; s_panicked := s_panicked st; s_fuel_out := s_fuel_out st |}.
Definition set_panicked (st : sstate) (v : bool) : sstate :=
  {| s_board := s_board st; s_tt := s_tt st; s_killers := s_killers st; s_history := s_history st; s_pv := s_pv st; s_nm_nodes := s_nm_nodes st; s_q_nodes := s_q_nodes st; s_stop := s_stop st; s_quit := s_quit st; s_reset_next := s_reset_next st; s_ponder_hit := s_ponder_hit st; s_go := s_go st; s_pmoves := s_pmoves st; s_debug := s_debug st; s_try_prev_pv := s_try_prev_pv st; s_contempt := s_contempt st; s_out := s_out st; s_drains := s_drains st; s_reads := s_reads st; s_panicked := v; s_fuel_out := s_fuel_out st |}.
Definition set_fuel_out (st : sstate) (v : bool) : sstate :=
  {| s_board := s_board st; s_tt := s_tt st; s_killers := s_killers st; s_history := s_history st; s_pv := s_pv st; s_nm_nodes := s_nm_nodes st; s_q_nodes := s_q_nodes st; s_stop := s_stop st; s_quit := s_quit st; s_reset_next := s_reset_next st; s_ponder_hit := s_ponder_hit st; s_go := s_go st; s_pmoves := s_pmoves st; s_debug := s_debug st; s_try_prev_pv := s_try_prev_pv st; s_contempt := s_contempt st; s_out := s_out st; s_drains := s_drains st; s_reads := s_reads st; s_panicked := s_panicked st; s_fuel_out := v |}.

Definition emit (st : sstate) (m : omsg) : sstate := set_out st (m :: s_out st).

(* ---------- f32 arithmetic for `hash_full: (load_factor() * 1000.0) as u32` ----------
   [f32 num den]: the positive rational num/den rounded to the nearest binary32 (24-bit significand, ties to
   even; the values met here are far from the subnormal and overflow ranges), again as a rational. *)
Definition f32 (num den : N) : N * N :=
  if (num =? 0) || (den =? 0) then (0, 1) else
  let k := (Z.of_N (N.size num) - Z.of_N (N.size den))%Z in
  let scaled (e : Z) : N * N :=                 (* numerator and denominator of (num/den) / 2^e *)
    if (e <? 0)%Z then (N.shiftl num (Z.to_N (- e)), den) else (num, N.shiftl den (Z.to_N e)) in
  let e1 := (k - 24)%Z in
  let e := let '(n1, d1) := scaled e1 in if n1 / d1 <? 16777216 then e1 else (e1 + 1)%Z in
  let '(n, d) := scaled e in
  let m := n / d in let r := n mod d in
  let m' := if (d <? 2 * r) || ((2 * r =? d) && N.odd m) then m + 1 else m in
  if (e <? 0)%Z then (m', N.shiftl 1 (Z.to_N (- e))) else (N.shiftl m' (Z.to_N e), 1).

(* len as f32 / capacity as f32, times 1000.0 (f32), truncated *)
Definition hash_full (len cap : N) : N :=
  let '(a1, a2) := f32 len 1 in
  let '(b1, b2) := f32 cap 1 in
  let '(q1, q2) := f32 (a1 * b2) (a2 * b1) in
  let '(r1, r2) := f32 (q1 * 1000) q2 in
  r1 / r2.

(* Duration / u32 (exact floor on the nanosecond count) and Duration * u32 *)
Definition dur_div (d k : N) : N := d / k.
(* Duration::mul_f64 for the four factors used: exact product rounded to the nearest nanosecond (the f64 round
   trip of the Rust is exact for durations below 2^32 ms) *)
Definition dur_mul_quarters (d quarters : N) : N := (d * quarters + 2) / 4.

(* release-profile ply_clock: (2 * fullmove.saturating_sub(1) + turn) as u16 *)
Definition ply_clock_w (b : board) : N := (2 * (full b - 1) + turn b) mod 65536.

Definition is_nil {A} (l : list A) : bool := match l with [] => true | _ => false end.

Section WithTables.
Variable T : Tables.t.

Definition start_board : board :=
  match fen_from_str STARTPOS with
  | inr f => board_of_fen f
  | inl _ => {| white := empty_pstate; black := empty_pstate; turn := 0; ep := 0; full := 1; half := 0 |}
  end.

(* Search::new: SearchState::default(), EngineOptions { debug, try_previous_pv: true, contempt_factor: 50 } *)
Definition init_state : sstate :=
  {| s_board := start_board; s_tt := HashTable.new tt_entry (nat_of_N (tt_capacity T)); s_killers := [];
     s_history := hempty; s_pv := None; s_nm_nodes := 0; s_q_nodes := 0;
     s_stop := false; s_quit := false; s_reset_next := false; s_ponder_hit := false;
     s_go := go_default; s_pmoves := [];
     s_debug := false; s_try_prev_pv := true; s_contempt := contempt T;
     s_out := []; s_drains := O; s_reads := O; s_panicked := false; s_fuel_out := false |}.

(* self.state.bitboard.unmake(mv) *)
Definition do_unmake (st : sstate) (m : move) : sstate :=
  match unmake (s_board st) m with
  | Some b => set_board st b
  | None => set_panicked st true
  end.

(* fn evaluate(&self, color, zobrist_pawn_hash, legal_moves_remaining) *)
Definition evaluate_for (color : N) (b : board) (legal_moves_remaining : bool) : Z :=
  (heuristic_factor color * evaluate T b legal_moves_remaining)%Z.

(* ---------- the capture search ---------- *)
Fixpoint qs_loop (rec : Z -> Z -> N -> sstate -> vmove * sstate) (moves : list move) (beta_original : Z) (zph : N)
         (alpha : Z) (best_move : option move) (best_child : option vmove) (st : sstate) : vmove * sstate :=
  match moves with
  | [] => (VM alpha best_move best_child, st)                        (* ValuedMove::new(alpha, best_move, best_child) *)
  | mv :: rest =>
      match make (s_board st) mv with
      | None => qs_loop rec rest beta_original zph alpha best_move best_child (set_panicked st true)
      | Some b1 =>
          let st1 := set_board st b1 in
          if negb (is_valid T b1) then qs_loop rec rest beta_original zph alpha best_move best_child (do_unmake st1 mv)
          else
            let st2 := set_q_nodes st1 (s_q_nodes st1 + 1) in
            let '(zpx, st3) := match zobrist_xor T mv with
                               | Some (_, p) => (p, st2)
                               | None => (0, set_panicked st2 true) end in
            let '(child, st4) := rec (- beta_original)%Z (- alpha)%Z (N.lxor zph zpx) st3 in
            let value := (- vm_value child)%Z in
            let st5 := do_unmake st4 mv in
            if (beta_original <=? value)%Z then (VM beta_original (Some mv) (Some child), st5)   (* ValuedMove::parent *)
            else if (alpha <? value)%Z then qs_loop rec rest beta_original zph value (Some mv) (Some child) st5
            else qs_loop rec rest beta_original zph alpha best_move best_child st5
      end
  end.

Fixpoint quiescence (fuel : nat) (alpha_original beta_original : Z) (zph : N) (st : sstate) : vmove * sstate :=
  match fuel with
  | O => (leaf 0, set_fuel_out st true)
  | S k =>
      let b := s_board st in
      let standing_pat := evaluate_for (turn b) b true in
      if (beta_original <=? standing_pat)%Z then (leaf beta_original, st)
      else
        let alpha := Z.max alpha_original standing_pat in
        let moves := sort_moves (gen_nonquiet T b) None None None in
        qs_loop (quiescence k) moves beta_original zph alpha None None st
  end.

(* every move of the capture search removes a piece or turns a pawn into a piece *)
Definition qfuel (b : board) : nat :=
  N.to_nat (1 + 2 * popcount (N.lor (full_occ (white b)) (full_occ (black b)))).

Section WithOracle.
Variable orc : oracle.

(* self.state.elapsed() *)
Definition read_clock (st : sstate) : N * sstate := (elapsed orc (s_reads st), set_reads st (S (s_reads st))).

(* check_messages: drain the channel *)
Definition apply_msg (st : sstate) (m : msg) : sstate :=
  match m with
  | MNewGame => set_reset_next st true
  | MDebug d => set_debug st d
  | MStop => set_stop st true
  | MPonderHit => set_ponder_hit st true
  | MQuit => set_quit (set_stop st true) true
  | MOther => st                                   (* UciPositionFrom / UciGo / VerifDumpFen: ignored during go *)
  end.
Definition check_messages (st : sstate) : sstate :=
  set_drains (fold_left apply_msg (inbox orc (s_drains st)) st) (S (s_drains st)).

(* generate_info: nodes, hash_full (and nps, which reads the clock).  The capacity of the table is the constant
   [tt_capacity T] it was created with ([init_state]); converting the unary [HashTable.cap] back would be linear. *)
Definition generate_info (st : sstate) : N * N * sstate :=
  let '(_, st1) := read_clock st in
  (s_nm_nodes st + s_q_nodes st, hash_full (N.of_nat (HashTable.len tt_entry (s_tt st))) (tt_capacity T), st1).

Definition should_check_flags (st : sstate) : bool :=
  (s_nm_nodes st mod poll orc =? 0) && (0 <? s_nm_nodes st).

(* the `if check_flags { ... }` block at the top of search_negamax; Some = early return *)
Definition poll_block (st : sstate) : option vmove * sstate :=
  if should_check_flags st then
    let st1 := check_messages st in
    let '(early, st2) :=
      match abort_at orc with
      | Some (n, mode) => if n =? s_nm_nodes st1 then (mode =? 1, set_stop st1 true) else (false, st1)
      | None => (false, st1)
      end in
    if early then (Some (leaf 0), st2)
    else
      let '(t, st3) := read_clock st2 in
      let '(nodes, hf, st4) := generate_info st3 in
      let st5 := emit st4 (OInfo {| i_depth := None; i_time := Some t; i_nodes := Some nodes; i_pv := None; i_score := None;
                                    i_hashfull := Some hf; i_nps := true; i_string := false |}) in
      match g_movetime (s_go st5) with
      | Some move_time =>
          let '(e, st6) := read_clock st5 in
          if move_time <? e then (Some (leaf 0), set_stop st6 true) else (None, st6)
      | None => (None, st5)
      end
  else (None, st).

(* filter_search_moves *)
Definition filter_search_moves (st : sstate) (buffer : list move) : list move :=
  match g_searchmoves (s_go st) with
  | [] => buffer
  | sm => filter (fun mv => existsb (umove_eqb (uci_of_move mv)) sm) buffer
  end.

(* the transposition-table probe: inl = early return, inr = (alpha, beta, tt_move) *)
Definition tt_probe (st : sstate) (zh remaining_draft : N) (alpha beta : Z) : vmove + (Z * Z * option move) :=
  match HashTable.get tt_entry (s_tt st) zh with
  | Some e =>
      if remaining_draft <=? te_depth e then
        match te_type e with
        | Exact => inl (te_mv e)
        | Lowerbound => let alpha' := Z.max alpha (te_value e) in
                        if (beta <=? alpha')%Z then inl (te_mv e) else inr (alpha', beta, vm_mv (te_mv e))
        | Upperbound => let beta' := Z.min beta (te_value e) in
                        if (beta' <=? alpha)%Z then inl (te_mv e) else inr (alpha, beta', vm_mv (te_mv e))
        end
      else inr (alpha, beta, vm_mv (te_mv e))
  | None => inr (alpha, beta, None)
  end.

Inductive loop_res :=
| LReturn (r : vmove)
| LDone (best_value : Z) (best_move : option move) (best_child : option vmove) (legal_moves_encountered : bool).

(* `for mv in buffer { ... }` of search_negamax; [rec] is the recursive call one ply deeper *)
Fixpoint nm_loop (rec : Z -> Z -> bool -> N -> N -> sstate -> vmove * sstate) (moves : list move)
         (is_pv : bool) (pv_move : option move) (zh zph remaining_draft : N) (beta : Z)
         (alpha best_value : Z) (best_move : option move) (best_child : option vmove) (legal : bool)
         (st : sstate) : loop_res * sstate :=
  match moves with
  | [] => (LDone best_value best_move best_child legal, st)
  | mv :: rest =>
      match make (s_board st) mv with
      | None => nm_loop rec rest is_pv pv_move zh zph remaining_draft beta alpha best_value best_move best_child legal
                        (set_panicked st true)
      | Some b1 =>
          let st1 := set_board st b1 in
          if negb (is_valid T b1) then
            nm_loop rec rest is_pv pv_move zh zph remaining_draft beta alpha best_value best_move best_child legal
                    (do_unmake st1 mv)
          else
            let '(zx, zpx, st2) := match zobrist_xor T mv with
                                   | Some (x, p) => (x, p, st1)
                                   | None => (0, 0, set_panicked st1 true) end in
            let '(child, st3) := rec (- beta)%Z (- alpha)%Z (is_pv && opt_move_eqb pv_move mv)
                                     (N.lxor zh zx) (N.lxor zph zpx) st2 in
            if s_stop st3 then (LReturn (VM 0 None None), do_unmake st3 mv)
            else
              let child_value := (- vm_value child)%Z in
              let '(bv, bm, bc) := if (best_value <? child_value)%Z then (child_value, Some mv, Some child)
                                   else (best_value, best_move, best_child) in
              let alpha' := Z.max alpha bv in
              let st4 := do_unmake st3 mv in
              if (beta <=? alpha')%Z then
                (LDone bv bm bc true, set_killers st4 (killer_put (s_killers st4) remaining_draft mv))
              else nm_loop rec rest is_pv pv_move zh zph remaining_draft beta alpha' bv bm bc true st4
      end
  end.

(* search_negamax, in three pieces.  [d] = max_ply - ply_depth_from_root (the remaining draft).

   1. everything up to and including the root filter: poll, node count, repetition leaf, table probe, generation *)
Inductive pre_res :=
| PreReturn (r : vmove)
| PreGo (alpha beta : Z) (tt_move : option move) (buffer : list move).

Definition node_prelude (ply remaining_draft : N) (alpha_original beta_original : Z) (zh : N) (st : sstate)
  : pre_res * sstate :=
  match poll_block st with
  | (Some r, st1) => (PreReturn r, st1)
  | (None, st1) =>
      let st2 := set_nm_nodes st1 (s_nm_nodes st1 + 1) in
      let b := s_board st2 in
      let '(h', repetition) := visit (s_history st2) ply (ply_clock_w b) zh (half b) in
      let st3 := set_history st2 h' in
      if repetition then
        (PreReturn (leaf (draw_score T + (if N.even ply then 1 else -1) * s_contempt st3)%Z), st3)
      else
        match tt_probe st3 zh remaining_draft alpha_original beta_original with
        | inl r => (PreReturn r, st3)
        | inr (alpha, beta, tt_move) =>
            let generated := gen_pseudo T b in
            let buffer := if ply =? 0 then filter_search_moves st3 generated else generated in
            if (ply =? 0) && is_nil buffer then (PreReturn (leaf 0), st3)
            else (PreGo alpha beta tt_move buffer, st3)
        end
  end.

(* 2. `if is_max_ply { ... }`.
   Bitboard::is_any_move_legal(&mut self, moves) makes and takes back every move up to the first legal one ON THE
   ENGINE'S BOARD; this is the identity only while make/unmake are inverse (the 12-bit previous-half-move field of
   Move truncates a half-move clock >= 4096), so the board is threaded through. *)
Fixpoint any_move_legal (moves : list move) (st : sstate) : bool * sstate :=
  match moves with
  | [] => (false, st)
  | mv :: rest =>
      match make (s_board st) mv with
      | None => any_move_legal rest (set_panicked st true)
      | Some b1 =>
          let st1 := do_unmake (set_board st b1) mv in
          if is_valid T b1 then (true, st1) else any_move_legal rest st1
      end
  end.

Definition leaf_node (color : N) (alpha beta : Z) (zph : N) (buffer : list move) (st : sstate) : vmove * sstate :=
  let '(legal_moves_remaining, st1) := any_move_legal buffer st in
  if legal_moves_remaining && is_any_move_non_quiescent buffer then quiescence (qfuel (s_board st1)) alpha beta zph st1
  else (leaf (evaluate_for color (s_board st1) legal_moves_remaining), st1).

(* 3. ordering, the move loop, the no-legal-move leaf, the table store *)
Definition interior_node (rec : Z -> Z -> bool -> N -> N -> sstate -> vmove * sstate)
           (color ply remaining_draft : N) (alpha_original : Z) (is_pv : bool) (zh zph : N)
           (alpha beta : Z) (tt_move : option move) (buffer : list move) (st : sstate) : vmove * sstate :=
  let pv_move := if is_pv then match s_pv st with
                               | Some l => nth_error l (N.to_nat ply)
                               | None => None              (* `.unwrap()`: is_pv is only true when a PV exists *)
                               end
                 else None in
  let killer_move := killer_get (s_killers st) remaining_draft in
  let moves := sort_moves buffer pv_move tt_move killer_move in
  match nm_loop rec moves is_pv pv_move zh zph remaining_draft beta alpha (loss_score T) None None false st with
  | (LReturn r, st4) => (r, st4)
  | (LDone best_value best_move best_child legal, st4) =>
      if negb legal then (leaf (evaluate_for color (s_board st4) false), st4)
      else
        let result := VM best_value best_move best_child in
        if negb (is_checkmate T best_value) then
          let nt := if (best_value <=? alpha_original)%Z then Upperbound
                    else if (beta <=? best_value)%Z then Lowerbound else Exact in
          (result, set_tt st4 (tt_put (s_tt st4) zh
                     {| te_mv := result; te_hash := zh; te_depth := remaining_draft; te_value := best_value; te_type := nt |}))
        else (result, st4)
  end.

Fixpoint negamax (d : nat) (ply : N) (alpha_original beta_original : Z) (is_pv : bool) (zh zph : N) (st : sstate)
  : vmove * sstate :=
  let color := turn (s_board st) in                                  (* read before anything else *)
  match node_prelude ply (N.of_nat d) alpha_original beta_original zh st with
  | (PreReturn r, st3) => (r, st3)
  | (PreGo alpha beta tt_move buffer, st3) =>
      match d with
      | O => leaf_node color alpha beta zph buffer st3
      | S d' => interior_node (negamax d' (ply + 1)) color ply (N.of_nat d) alpha_original is_pv zh zph alpha beta tt_move buffer st3
      end
  end.

(* ---------- try_set_pv_from_continuation ----------
   `last_pv.drain(0..2).collect()` collects the DRAINED elements: the new PV is the first two moves of the old one *)
Definition try_set_pv_from_continuation (st : sstate) : sstate :=
  let last_ponder := match s_pv st with Some l => nth_error l 1 | None => None end in
  let last_played := last (map Some (s_pmoves st)) None in
  match last_ponder, last_played with
  | Some pm, Some lm =>
      if move_eqb pm lm then
        match s_pv st with                                         (* .take() *)
        | Some last_pv => if (2 <? length last_pv)%nat then set_pv st (Some (firstn 2 last_pv)) else set_pv st None
        | None => st
        end
      else st
  | _, _ => st
  end.

(* calculate_max_thinking_time *)
Definition calculate_max_thinking_time (st : sstate) : option N :=
  let white_turn := turn (s_board st) =? WHITE in
  let increment := if white_turn then g_winc (s_go st) else g_binc (s_go st) in
  let time_remaining := if white_turn then g_wtime (s_go st) else g_btime (s_go st) in
  match time_remaining with
  | Some tr =>
      match increment with
      | Some inc =>
          let secs := tr / 1000000000 in
          let quarters := if 20 <=? secs then 4 else if 10 <=? secs then 3 else if 2 <=? secs then 2 else 1 in
          Some (dur_mul_quarters inc quarters)
      | None => Some (dur_div tr 60)
      end
  | None => None
  end.

(* ---------- best_move: iterative deepening ---------- *)
Fixpoint iter_until {A B : Type} (p : positive) (step : A -> A + B) (a : A) : A + B :=
  match p with
  | xH => step a
  | xO q => match iter_until q step a with inl a' => iter_until q step a' | inr b => inr b end
  | xI q => match step a with
            | inl a' => match iter_until q step a' with inl a'' => iter_until q step a'' | inr b => inr b end
            | inr b => inr b
            end
  end.

(* one record per iteration, for the statements of C09/C07: depth, result of the root call, `aborted` *)
Record iter_rec := { it_depth : N; it_result : vmove; it_aborted : bool }.

Record idstate := {
  id_depth : N; id_fuel : nat;                     (* the loop variable, twice *)
  id_best : option vmove; id_uci_pv : option (list move); id_score : option score;
  id_log : list iter_rec;                           (* newest first *)
  id_st : sstate
}.

Definition id_step (max_thinking_time : option N) (a : idstate) : idstate + idstate :=
  let st := id_st a in
  let depth := id_depth a in
  let '(current, st1) := negamax (id_fuel a) 0 (loss_score T) (win_score T)
                                 (match s_pv st with Some _ => true | None => false end)
                                 (zobrist_hash T (s_board st)) (pawn_hash T (s_board st)) st in
  let '(el, st2) := read_clock st1 in
  let too_little_time := match max_thinking_time with Some mt => dur_div mt 3 <? el | None => false end in
  let aborted := s_stop st2 || match vm_mv current with None => true | Some _ => false end in
  let stop := aborted || too_little_time in
  let '(best, uci_pv, sc, st3) :=
    if negb aborted then
      let bb_pv := calc_pv current in
      (Some current, Some bb_pv, Some (score_from_value T (vm_value current) (s_board st2)), set_pv st2 (Some bb_pv))
    else (id_best a, id_uci_pv a, id_score a, st2) in
  let '(nodes, hf, st4) := generate_info st3 in
  let st5 := emit st4 (OInfo {| i_depth := Some (if aborted then depth - 1 else depth); i_time := Some el; i_nodes := Some nodes;
                                i_pv := option_map (map uci_of_move) uci_pv; i_score := sc; i_hashfull := Some hf;
                                i_nps := true; i_string := s_debug st3 |}) in
  let a' := {| id_depth := depth + 1; id_fuel := S (id_fuel a); id_best := best; id_uci_pv := uci_pv; id_score := sc;
               id_log := {| it_depth := depth; it_result := current; it_aborted := aborted |} :: id_log a; id_st := st5 |} in
  if stop then inr a' else inl a'.

Definition best_move (st : sstate) : option umove * option umove * list iter_rec * sstate :=
  let st1 := set_killers (set_tt st (HashTable.clear tt_entry (s_tt st))) (killer_age (s_killers st) 2) in
  let st2 := if s_try_prev_pv st1 then try_set_pv_from_continuation st1 else st1 in
  let max_depth := match g_depth (s_go st2) with Some dd => N.max dd 1 | None => 999999 end in
  let st3 := match g_movetime (s_go st2) with
             | None => set_go st2 (set_movetime (s_go st2) (option_map (fun x => x * 2) (calculate_max_thinking_time st2)))
             | Some _ => st2
             end in
  let max_thinking_time := g_movetime (s_go st3) in
  let a0 := {| id_depth := 1; id_fuel := 1%nat; id_best := None; id_uci_pv := None; id_score := None; id_log := []; id_st := st3 |} in
  let fin := match iter_until (match max_depth with Npos p => p | N0 => xH end) (id_step max_thinking_time) a0 with
             | inl a => a | inr a => a end in
  let '(_, st4) := read_clock (id_st fin) in                        (* metrics.increment_duration(&elapsed()) *)
  (match id_best fin with Some vm => option_map uci_of_move (vm_mv vm) | None => None end,
   match id_uci_pv fin with Some l => option_map uci_of_move (nth_error l 1) | None => None end,
   id_log fin, st4).

(* reset_for_go (both branches zero `metrics.last`) *)
Definition reset_for_go (st : sstate) : sstate :=
  let st1 := if s_reset_next st then set_killers (set_tt st (HashTable.clear tt_entry (s_tt st))) [] else st in
  set_ponder_hit (set_reset_next (set_quit (set_stop (set_q_nodes (set_nm_nodes st1 0) 0) false) false) false) false.

(* UciGo(go) => { self.params.go = go; self.go(); }   -- the oracle counters restart with every go *)
Definition go_full (g : go_params) (st : sstate) : list iter_rec * sstate :=
  let st0 := set_reads (set_drains (set_go st g) O) O in
  let st1 := reset_for_go st0 in
  let '(best, ponder, log, st2) := best_move st1 in
  (log, emit st2 (OBestmove best ponder)).
Definition go (g : go_params) (st : sstate) : sstate := snd (go_full g st).

End WithOracle.

(* ---------- set_position_from ---------- *)
Inductive pos_res := PosOk (b : board) (h : hist) (played : list move) | PosErr | PosPanic.

Fixpoint play_moves (b : board) (h : hist) (moves : list str) (played_rev : list move) : pos_res :=
  match moves with
  | [] => PosOk b h (rev played_rev)
  | u :: rest =>
      match find_uci T b u with
      | (inr m, Some b1) =>
          match make b1 m with
          | Some b2 => play_moves b2 (hset h (ply_clock_w b2) (zobrist_hash T b2)) rest (m :: played_rev)
          | None => PosPanic
          end
      | (inr _, None) => PosPanic
      | (inl _, Some _) => PosErr                  (* eprintln!; return: the engine keeps its OLD position *)
      | (inl _, None) => PosPanic
      end
  end.

Definition position_result (f : fen) (moves : list str) : pos_res :=
  let b := board_of_fen f in
  play_moves b (hset hempty (ply_clock_w b) (zobrist_hash T b)) moves [].

Definition set_position_from (f : fen) (moves : list str) (st : sstate) : sstate :=
  match position_result f moves with
  | PosOk b h played => set_pmoves (set_history (set_board st b) h) played
  | PosErr => emit st OStderr
  | PosPanic => set_panicked st true
  end.

(* ---------- Engine::accept + Search::idle ---------- *)
Inductive cmd :=
| CUci | CIsReady | CNewGame
| CPosition (f : fen) (moves : list str)
| CGo (g : go_params) (o : oracle)
| CStop | CPonderHit
| CDebug (d : bool)
| CDumpFen.                                        (* verification hook: Engine::verif_dump_fen *)

(* once the quit flag is set (a quit that arrived during a search) the idle loop has ended: nothing is processed *)
Definition run_command (st : sstate) (c : cmd) : sstate :=
  if s_quit st then st else
  match c with
  | CUci => emit (emit (emit st OIdName) OIdAuthor) OUciOk
  | CIsReady => emit st OReadyOk
  | CNewGame => set_reset_next st true
  | CPosition f moves => set_position_from f moves st
  | CGo g o => go o g st
  | CStop | CPonderHit => st                       (* ignored during idle *)
  | CDebug d => set_debug st d
  | CDumpFen => match print_fen (s_board st) with Some f => emit st (OFen f) | None => set_panicked st true end
  end.

Definition run_commands (cmds : list cmd) (st : sstate) : sstate := fold_left run_command cmds st.

End WithTables.

(* Model of what the engine hands to `UciTx` and of how uci/src/uci/console.rs (`ConsoleUciTx`) renders it.

   Only the `Info` fields the engine ever sets are kept (depth, time, nodes, pv, score, hashfull, nps, string);
   the order of the fields in the rendered line is the order of the `append_maybe` calls of `ConsoleUciTx::info`:
     depth seldepth time nodes pv multipv score currmove currmovenumber hashfull nps tbhits sbhits cpuload
     refutation currline string.
   Run-time measurements are not values of the model: the elapsed time is printed as the letter `T`
   (`time T`), the node rate as `X` (`nps X`), and the `debug on` statistics string (six f64 ratios) as `S`
   (`string S`).  The correspondence check rewrites the implementation's lines the same way. *)
Require Import Ink.Lib.Str.
Require Import NArith ZArith List Bool.
Require Import Ink.Model.Board Ink.Model.Fen Ink.Model.Notation Ink.Model.Heuristic.
Import ListNotations.
Open Scope N_scope.

(* UciMove { source, target, promote_to } : squares as shifts, promotion piece 0 = None *)
Definition umove := (N * N * N)%type.

(* lib.rs: move_into_uci_move *)
Definition uci_of_move (m : move) : umove :=
  (src m, dst m, if (1 <=? promo m) && (promo m <=? 6) then promo m else 0).

(* derived PartialEq on UciMove *)
Definition umove_eqb (a b : umove) : bool :=
  let '(s1, t1, p1) := a in let '(s2, t2, p2) := b in (s1 =? s2) && (t1 =? t2) && (p1 =? p2).

(* impl Display for UciMove *)
Definition show_umove (u : umove) : str :=
  let '(s, t, p) := u in square_str s ++ square_str t ++ piece_text p.

Record info := {
  i_depth : option N;
  i_time : option N;              (* nanoseconds; rendered as `T` *)
  i_nodes : option N;
  i_pv : option (list umove);
  i_score : option score;
  i_hashfull : option N;
  i_nps : bool;                   (* present; rendered as `X` *)
  i_string : bool                 (* present (debug on); rendered as `S` *)
}.

(* messages written by the engine (and, for OFen, by the verification hook VerifDumpFen) *)
Inductive omsg :=
| OInfo (i : info)
| OBestmove (best ponder : option umove)
| OIdName | OIdAuthor | OUciOk | OReadyOk
| OFen (f : str)
| OStderr.                        (* eprintln! of set_position_from: not on the UCI channel *)

Definition append_maybe (key : str) (v : option str) : str :=
  match v with Some x => [32] ++ key ++ [32] ++ x | None => [] end.

Definition move_array_to_string (l : list umove) : str := join [32] (map show_umove l).

Definition score_to_string (s : score) : str :=
  match s with Mate n => lit "mate " ++ show_Z n | Cp v => lit "cp " ++ show_Z v end.

Definition render_info (i : info) : str :=
  lit "info"
  ++ append_maybe (lit "depth") (option_map show_N (i_depth i))
  ++ append_maybe (lit "time") (option_map (fun _ => lit "T") (i_time i))
  ++ append_maybe (lit "nodes") (option_map show_N (i_nodes i))
  ++ append_maybe (lit "pv") (option_map move_array_to_string (i_pv i))
  ++ append_maybe (lit "score") (option_map score_to_string (i_score i))
  ++ append_maybe (lit "hashfull") (option_map show_N (i_hashfull i))
  ++ append_maybe (lit "nps") (if i_nps i then Some (lit "X") else None)
  ++ append_maybe (lit "string") (if i_string i then Some (lit "S") else None).

Definition render_bestmove (best ponder : option umove) : str :=
  lit "bestmove "
  ++ (match best with Some m => show_umove m | None => lit "0000" end)
  ++ (match ponder with Some p => lit " ponder " ++ show_umove p | None => [] end).

(* None = nothing on the UCI channel *)
Definition render (m : omsg) : option str :=
  match m with
  | OInfo i => Some (render_info i)
  | OBestmove b p => Some (render_bestmove b p)
  | OIdName => Some (lit "id name Inkayaku")
  | OIdAuthor => Some (lit "id author Marvin Kuhnke (see https://github.com/marvk/rust-chess)")
  | OUciOk => Some (lit "uciok")
  | OReadyOk => Some (lit "readyok")
  | OFen f => Some (lit "@fen " ++ f)
  | OStderr => None
  end.

(* Model of /repo/pgn/src/reader.rs (`PgnRawParser<R: Read>`) WITH the fix
   /verif/fixes/c17-pgn-reader.patch applied (`read_token`, exact result tokens,
   `skip_to_next_line` tolerating the end of the input).

   The parser is written once, over a byte source `source` that offers the three
   primitives every parser function is built from (`peek_byte`, `pop_byte`,
   `skip_byte`); it is instantiated twice:

   * `CSrc` (concrete): the Rust struct { chunk_size; current_buffer; current_byte;
     eof_reached } together with the underlying `Read`, which is data: the bytes not
     yet handed out (`input`) and a fragmentation oracle (`frag`): the next `read`
     call returns  min (max 1 (hd frag)) (min buf.len() remaining)  bytes (and fills
     the buffer as far as possible once the oracle is used up), i.e. any n with
     1 <= n <= buf.len() while input remains, and 0 at the end.  `buf.len()` is the
     CURRENT buffer length: `ensure_buffer` shrinks the buffer after a short read and
     never grows it again.
   * `ASrc` (abstract): the remaining bytes as a plain list (the cursor is the suffix).

   Results are `Ok v | Err e` with the source state threaded (`M`).  Rust `Err`
   values are EClosed / EConsume / ESymbol; EPanic stands for a Rust panic (slice
   index out of range, "Assertion Error"), EFuel for an exhausted model fuel; these
   two are never caught by the model of `while let Ok(..)`.
   Loops run on fuel; every loop iteration consumes at least one byte, so the fuel
   S (length bytes) handed out by `run_*` is never exhausted (Proofs/PgnProofs.v).
   Not modelled: the `position` counter (it only occurs inside error values; the
   observation prints the error kind only).
   `HashMap<String,String>` is an association list without duplicate keys:
   `hm_insert` replaces the value of an existing key, otherwise appends.
   The `pinned_*` definitions at the end of the section are a frozen copy of the token logic BEFORE the
   fix (read_until(' '), 2nd character `-` or `/`, strict skip_to_next_line); `run_pinned` is only used for
   the refutation witnesses D13-D15. *)
Require Import Ink.Lib.Str.
Require Import NArith List Bool Arith.
Import ListNotations.

Inductive perr : Type :=
| EClosed                              (* ReadingFromClosedRead *)
| EConsume (expected actual : N)       (* IllegalConsume *)
| ESymbol (actual : N)                 (* IllegalSymbol *)
| EPanic
| EFuel.

Inductive res (A : Type) : Type := Ok (a : A) | Err (e : perr).
Arguments Ok {A} a.
Arguments Err {A} e.

(* aborts are not Rust values: they cannot be observed by `while let Ok(..)` or `let v = ..;` *)
Definition is_abort (e : perr) : bool := match e with EPanic | EFuel => true | _ => false end.

Definition M (T A : Type) : Type := T -> res A * T.
Definition ret {T A : Type} (a : A) : M T A := fun s => (Ok a, s).
Definition fail {T A : Type} (e : perr) : M T A := fun s => (Err e, s).
Definition bind {T A B : Type} (m : M T A) (f : A -> M T B) : M T B :=
  fun s => match m s with
           | (Ok a, s') => f a s'
           | (Err e, s') => (Err e, s')
           end.
Notation "x <- m ;; f" := (bind m (fun x => f)) (at level 61, m at next level, right associativity).

(* `if let Ok(x) = m` : a Rust error becomes None, the effects of m stay *)
Definition attempt {T A : Type} (m : M T A) : M T (option A) :=
  fun s => match m s with
           | (Ok a, s') => (Ok (Some a), s')
           | (Err e, s') => if is_abort e then (Err e, s') else (Ok None, s')
           end.

(* `let v = m; k?; v` : the result of m is looked at only after k succeeded *)
Definition then_check {T A : Type} (m : M T A) (k : M T unit) : M T A :=
  fun s => match m s with
           | (Err e, s') =>
               if is_abort e then (Err e, s')
               else match k s' with
                    | (Ok _, s'') => (Err e, s'')
                    | (Err e', s'') => (Err e', s'')
                    end
           | (Ok a, s') =>
               match k s' with
               | (Ok _, s'') => (Ok a, s'')
               | (Err e', s'') => (Err e', s'')
               end
           end.

(* ---- output ---- *)
Definition raw_move : Type := str * option str.           (* PgnRawAnnotatedMove { mv, annotation } *)
Definition tagmap : Type := list (str * str).
Definition raw_game : Type := tagmap * list raw_move.     (* PgnRaw { tag_pairs, moves } *)

Fixpoint hm_insert (k v : str) (m : tagmap) : tagmap :=
  match m with
  | [] => [(k, v)]
  | (k', v') :: r => if str_eqb k k' then (k', v) :: r else (k', v') :: hm_insert k v r
  end.

Definition result_tokens : list str := [lit "1-0"; lit "0-1"; lit "1/2-1/2"; lit "*"].
Definition is_result (token : str) : bool := mem_str token result_tokens.

(* ---- the byte source ---- *)
Record source : Type := {
  St : Type;
  peek_byte : M St N;
  pop_byte : M St N;
  skip_byte : M St unit
}.

Section Parser.
Variable X : source.
Notation T := (St X).

Definition consume (expected : N) : M T unit :=
  actual <- pop_byte X ;;
  if N.eqb actual expected then ret tt else fail (EConsume expected actual).

Fixpoint skip_blank_lines (fuel : nat) : M T unit :=
  match fuel with
  | O => fail EFuel
  | S k =>
      b <- peek_byte X ;;
      if N.eqb b 10 then (_ <- skip_byte X ;; skip_blank_lines k) else ret tt
  end.

(* while self.peek_byte()? == b'\n' || self.peek_byte()? == b' ' *)
Fixpoint skip_blank_lines_and_spaces (fuel : nat) : M T unit :=
  match fuel with
  | O => fail EFuel
  | S k =>
      b <- peek_byte X ;;
      if N.eqb b 10 then (_ <- skip_byte X ;; skip_blank_lines_and_spaces k)
      else (b2 <- peek_byte X ;;
            if N.eqb b2 32 then (_ <- skip_byte X ;; skip_blank_lines_and_spaces k) else ret tt)
  end.

Fixpoint skip_spaces (fuel : nat) : M T unit :=
  match fuel with
  | O => fail EFuel
  | S k =>
      b <- peek_byte X ;;
      if N.eqb b 32 then (_ <- skip_byte X ;; skip_spaces k) else ret tt
  end.

(* fixed: while let Ok(byte) = self.pop_byte() { if byte == b'\n' { break; } }  Ok(()) *)
Fixpoint skip_to_next_line (fuel : nat) : M T unit :=
  match fuel with
  | O => fail EFuel
  | S k =>
      ob <- attempt (pop_byte X) ;;
      match ob with
      | None => ret tt
      | Some b => if N.eqb b 10 then ret tt else skip_to_next_line k
      end
  end.

(* new: read up to (excluding) the next space, newline or the end of the input *)
Fixpoint read_token (fuel : nat) : M T str :=
  match fuel with
  | O => fail EFuel
  | S k =>
      ob <- attempt (peek_byte X) ;;
      match ob with
      | None => ret []
      | Some b =>
          if N.eqb b 32 || N.eqb b 10 then ret []
          else (_ <- skip_byte X ;; r <- read_token k ;; ret (b :: r))
      end
  end.

Fixpoint read_until_loop (fuel : nat) (byte cur_byte : N) : M T str :=
  match fuel with
  | O => fail EFuel
  | S k =>
      if N.eqb cur_byte byte then ret []
      else (_ <- skip_byte X ;;
            c <- peek_byte X ;;
            r <- read_until_loop k byte c ;;
            ret (cur_byte :: r))
  end.
Definition read_until (fuel : nat) (byte : N) : M T str :=
  cur_byte <- peek_byte X ;; read_until_loop fuel byte cur_byte.

Definition read_tag_name (fuel : nat) : M T str := read_until fuel 32.

Definition read_tag_value (fuel : nat) : M T str :=
  _ <- consume 34 ;;
  then_check (read_until fuel 34) (consume 34).

Definition read_tag_pair_line (fuel : nat) : M T (str * str) :=
  _ <- consume 91 ;;
  name <- read_tag_name fuel ;;
  _ <- consume 32 ;;
  value <- read_tag_value fuel ;;
  _ <- consume 93 ;;
  _ <- consume 10 ;;
  ret (name, value).

Fixpoint read_tag_pairs_loop (fuel F : nat) (result : tagmap) : M T tagmap :=
  match fuel with
  | O => fail EFuel
  | S k =>
      b <- peek_byte X ;;
      if N.eqb b 91 then
        (kv <- read_tag_pair_line F ;; read_tag_pairs_loop k F (hm_insert (fst kv) (snd kv) result))
      else if N.eqb b 10 then ret result
      else fail (ESymbol b)
  end.
Definition read_tag_pairs (F : nat) : M T tagmap := read_tag_pairs_loop F F [].

Definition read_braced_annotation (fuel : nat) : M T str :=
  _ <- consume 123 ;;
  then_check (read_until fuel 125) (consume 125).

Definition read_semicolon_annotation (fuel : nat) : M T str :=
  _ <- consume 59 ;;
  then_check (read_until fuel 10) (consume 10).

Definition read_move (F : nat) : M T (option raw_move) :=
  _ <- skip_blank_lines_and_spaces F ;;
  token <- read_token F ;;
  if is_result token then ret None
  else
    mv <- (if contains_chr 46 token then (_ <- skip_spaces F ;; read_token F) else ret token) ;;
    _ <- skip_spaces F ;;
    byte <- peek_byte X ;;
    annotation <- (if N.eqb byte 123 then (a <- read_braced_annotation F ;; ret (Some a))
                   else if N.eqb byte 59 then (a <- read_semicolon_annotation F ;; ret (Some a))
                   else ret None) ;;
    ret (Some (mv, annotation)).

Fixpoint read_moves_loop (fuel F : nat) : M T (list raw_move) :=
  match fuel with
  | O => fail EFuel
  | S k =>
      o <- read_move F ;;
      match o with
      | Some mv => (r <- read_moves_loop k F ;; ret (mv :: r))
      | None => ret []
      end
  end.

Definition read_moves (F : nat) : M T (list raw_move) :=
  result <- read_moves_loop F F ;;
  _ <- skip_to_next_line F ;;
  ret result.

Definition read_pgn (F : nat) : M T raw_game :=
  tag_pairs <- read_tag_pairs F ;;
  _ <- skip_blank_lines F ;;
  moves <- read_moves F ;;
  ret (tag_pairs, moves).

(* Iterator::next *)
Definition next (F : nat) (s : T) : option (res raw_game) * T :=
  match skip_blank_lines_and_spaces F s with
  | (Ok _, s') => let (r, s'') := read_pgn F s' in (Some r, s'')
  | (Err EClosed, s') => (None, s')
  | (Err e, s') => (Some (Err e), s')
  end.

(* the user's loop: collect items until None or the first error item *)
Fixpoint run_loop (fuel F : nat) (s : T) : list (res raw_game) :=
  match fuel with
  | O => [Err EFuel]
  | S k =>
      match next F s with
      | (None, _) => []
      | (Some (Ok g), s') => Ok g :: run_loop k F s'
      | (Some (Err e), _) => [Err e]
      end
  end.

(* ---- frozen copy of the token logic of the PINNED reader (before the fix): only used to state the
        refutation witnesses D13-D15 (Properties/C17.v `C17_pinned_refuted_*`) ---- *)
Fixpoint pinned_skip_to_next_line (fuel : nat) : M T unit :=      (* while self.pop_byte()? != b'\n' {} *)
  match fuel with
  | O => fail EFuel
  | S k => b <- pop_byte X ;; if N.eqb b 10 then ret tt else pinned_skip_to_next_line k
  end.

Definition first_is_star (token : str) : bool :=
  match token with c :: _ => N.eqb c 42 | [] => false end.
Definition second_is_dash_or_slash (token : str) : bool :=
  match token with _ :: c :: _ => N.eqb c 45 || N.eqb c 47 | _ => false end.

Definition pinned_read_move (F : nat) : M T (option raw_move) :=
  _ <- skip_blank_lines_and_spaces F ;;
  token <- read_until F 32 ;;
  if first_is_star token then ret None
  else if second_is_dash_or_slash token then (_ <- pinned_skip_to_next_line F ;; ret None)
  else
    mv <- (if contains_chr 46 token then (_ <- skip_spaces F ;; read_until F 32) else ret token) ;;
    _ <- skip_spaces F ;;
    byte <- peek_byte X ;;
    annotation <- (if N.eqb byte 123 then (a <- read_braced_annotation F ;; ret (Some a))
                   else if N.eqb byte 59 then (a <- read_semicolon_annotation F ;; ret (Some a))
                   else ret None) ;;
    ret (Some (mv, annotation)).

Fixpoint pinned_read_moves_loop (fuel F : nat) : M T (list raw_move) :=
  match fuel with
  | O => fail EFuel
  | S k =>
      o <- pinned_read_move F ;;
      match o with
      | Some mv => (r <- pinned_read_moves_loop k F ;; ret (mv :: r))
      | None => ret []
      end
  end.

Definition pinned_read_pgn (F : nat) : M T raw_game :=
  tag_pairs <- read_tag_pairs F ;;
  _ <- skip_blank_lines F ;;
  moves <- (result <- pinned_read_moves_loop F F ;; _ <- pinned_skip_to_next_line F ;; ret result) ;;
  ret (tag_pairs, moves).

Definition pinned_next (F : nat) (s : T) : option (res raw_game) * T :=
  match skip_blank_lines_and_spaces F s with
  | (Ok _, s') => let (r, s'') := pinned_read_pgn F s' in (Some r, s'')
  | (Err EClosed, s') => (None, s')
  | (Err e, s') => (Some (Err e), s')
  end.

Fixpoint pinned_run_loop (fuel F : nat) (s : T) : list (res raw_game) :=
  match fuel with
  | O => [Err EFuel]
  | S k =>
      match pinned_next F s with
      | (None, _) => []
      | (Some (Ok g), s') => Ok g :: pinned_run_loop k F s'
      | (Some (Err e), _) => [Err e]
      end
  end.

End Parser.

(* ---- abstract source: the remaining bytes ---- *)
Definition a_peek_byte : M (list N) N :=
  fun l => match l with [] => (Err EClosed, l) | b :: _ => (Ok b, l) end.
Definition a_pop_byte : M (list N) N :=
  fun l => match l with [] => (Err EClosed, l) | b :: r => (Ok b, r) end.
Definition a_skip_byte : M (list N) unit :=
  fun l => match l with [] => (Err EClosed, l) | _ :: r => (Ok tt, r) end.
Definition ASrc : source :=
  {| St := list N; peek_byte := a_peek_byte; pop_byte := a_pop_byte; skip_byte := a_skip_byte |}.

(* ---- concrete source: the chunked window over a `Read` ---- *)
Local Open Scope nat_scope.
Record cstate : Type := {
  chunk_size : nat;
  buffer : list N;          (* current_buffer *)
  current_byte : nat;
  eof : bool;               (* eof_reached (write-only in the Rust) *)
  input : list N;           (* the Read: bytes not yet handed out *)
  frag : list nat           (* the Read: sizes the coming read calls would like to return *)
}.

(* how many bytes the next `read(&mut buf)` returns, buf.len() = buflen:
   min (want, buflen, remaining); `length (firstn buflen inp)` is min (buflen, remaining) without walking
   through the whole remaining input *)
Definition read_len (buflen : nat) (fr : list nat) (inp : list N) : nat :=
  let want := match fr with f :: _ => Nat.max 1 f | [] => buflen end in
  Nat.min want (length (firstn buflen inp)).

(* Vec::resize(n, 0) *)
Definition resize (n : nat) (l : list N) : list N := firstn n l ++ repeat 0%N (n - length l).

Definition ensure_buffer (s : cstate) : res bool * cstate :=
  if length (buffer s) <=? current_byte s then
    let n := read_len (length (buffer s)) (frag s) (input s) in
    (* self.current_byte = 0; read() overwrites the first n bytes of the buffer *)
    let buf1 := firstn n (input s) ++ skipn n (buffer s) in
    let s1 := {| chunk_size := chunk_size s; buffer := buf1; current_byte := 0; eof := eof s;
                 input := skipn n (input s); frag := tl (frag s) |} in
    if n =? 0 then
      (Ok false, {| chunk_size := chunk_size s; buffer := []; current_byte := 0; eof := true;
                    input := input s1; frag := frag s1 |})
    else if n <? chunk_size s then
      (Ok true, {| chunk_size := chunk_size s; buffer := resize n buf1; current_byte := 0; eof := eof s;
                   input := input s1; frag := frag s1 |})
    else if chunk_size s <? n then (Err EPanic, s1)
    else (Ok true, s1)
  else (Ok true, s).

Definition increment_byte (s : cstate) : cstate :=
  {| chunk_size := chunk_size s; buffer := buffer s; current_byte := S (current_byte s); eof := eof s;
     input := input s; frag := frag s |}.

Definition c_peek_byte : M cstate N :=
  fun s => match ensure_buffer s with
           | (Ok true, s') =>
               match nth_error (buffer s') (current_byte s') with
               | Some b => (Ok b, s')
               | None => (Err EPanic, s')       (* index out of bounds *)
               end
           | (Ok false, s') => (Err EClosed, s')
           | (Err e, s') => (Err e, s')
           end.
Definition c_pop_byte : M cstate N :=
  result <- c_peek_byte ;; fun s => (Ok result, increment_byte s).
Definition c_skip_byte : M cstate unit :=
  fun s => match ensure_buffer s with
           | (Ok true, s') => (Ok tt, increment_byte s')
           | (Ok false, s') => (Err EClosed, s')
           | (Err e, s') => (Err e, s')
           end.
Definition CSrc : source :=
  {| St := cstate; peek_byte := c_peek_byte; pop_byte := c_pop_byte; skip_byte := c_skip_byte |}.

(* PgnRawParser::with_chunk_size(reader, chunk) *)
Definition c_init (chunk : nat) (fr : list nat) (bytes : list N) : cstate :=
  {| chunk_size := chunk; buffer := repeat 0%N chunk; current_byte := chunk; eof := false;
     input := bytes; frag := fr |}.

Definition fuel_for (bytes : list N) : nat := S (length bytes).

Definition run_concrete (chunk : nat) (fr : list nat) (bytes : list N) : list (res raw_game) :=
  run_loop CSrc (fuel_for bytes) (fuel_for bytes) (c_init chunk fr bytes).
Definition run_abstract (bytes : list N) : list (res raw_game) :=
  run_loop ASrc (fuel_for bytes) (fuel_for bytes) bytes.

Definition run_pinned (chunk : nat) (fr : list nat) (bytes : list N) : list (res raw_game) :=
  pinned_run_loop CSrc (fuel_for bytes) (fuel_for bytes) (c_init chunk fr bytes).

(* Model of the UCI / SAN conversions of board/src/board.rs: Move::to_uci_string, find_uci, make_uci,
   make_all_uci, uci_to_pgn, pgn_to_bb (PGN_REGEX as a priority-ordered recogniser).
   Every function returns the board it leaves behind. *)
Require Import Ink.Lib.Str.
Require Import NArith List Bool.
Require Import Ink.Lib.Bits Ink.Model.Tables Ink.Model.Board Ink.Model.Fen.
Import ListNotations.
Open Scope N_scope.

Definition piece_text (piece : N) : str := if (1 <=? piece) && (piece <=? 6) then [piece_char piece] else [].
Definition square_str (sq : N) : str := if sq <? 64 then square_text sq else [].
Definition to_uci (m : move) : str := square_str (src m) ++ square_str (dst m) ++ piece_text (promo m).

Inductive uci_err := MoveDoesNotExist | MoveIsNotValid.

Section WithTables.
Variable T : Tables.t.

Fixpoint find_first {A} (f : A -> bool) (l : list A) : option A :=
  match l with [] => None | x :: r => if f x then Some x else find_first f r end.

(* find_uci (after the fix: the move is taken back on the MoveIsNotValid path too).
   Result + board left behind; None board = a panic inside make/unmake. *)
Definition find_uci (b : board) (s : str) : (uci_err + move) * option board :=
  let u := trim s in
  match find_first (fun m => str_eqb (to_uci m) u) (gen_pseudo T b) with
  | None => (inl MoveDoesNotExist, Some b)
  | Some m =>
      match make b m with
      | None => (inl MoveIsNotValid, None)
      | Some b1 =>
          if negb (is_valid T b1) then (inl MoveIsNotValid, unmake b1 m)
          else (inr m, unmake b1 m)
      end
  end.

Definition make_uci (b : board) (s : str) : (uci_err + unit) * option board :=
  match find_uci b s with
  | (inr m, Some b') => (inr tt, make b' m)
  | (inr m, None) => (inr tt, None)
  | (inl e, b') => (inl e, b')
  end.

Fixpoint unmake_all (b : option board) (ms : list move) : option board :=   (* ms newest first *)
  match ms with [] => b | m :: r => match b with Some b' => unmake_all (unmake b' m) r | None => None end end.

Fixpoint make_all_uci_aux (b : board) (ss : list str) (made : list move) : (uci_err + unit) * option board :=
  match ss with
  | [] => (inr tt, Some b)
  | s :: r =>
      match find_uci b s with
      | (inr m, Some b') => match make b' m with
                            | Some b'' => make_all_uci_aux b'' r (m :: made)
                            | None => (inr tt, None) end
      | (inr m, None) => (inr tt, None)
      | (inl e, b') => (inl e, unmake_all b' made)
      end
  end.
Definition make_all_uci (b : board) (ss : list str) := make_all_uci_aux b ss [].

(* ---------- uci_to_pgn ---------- *)
Definition file_of (sq : N) : N := sq mod 8.
Definition rank_of (sq : N) : N := sq / 8.
Definition file_char (sq : N) : N := 97 + file_of sq.
Definition rank_char (sq : N) : N := 48 + (8 - rank_of sq).

Definition uci_to_pgn (b : board) (s : str) : (uci_err + str) * option board :=
  let u := trim s in
  let moves := gen_pseudo T b in
  match find_first (fun m => str_eqb (to_uci m) u) moves with
  | None => (inl MoveDoesNotExist, Some b)
  | Some r =>
      match make b r with
      | None => (inl MoveIsNotValid, None)
      | Some b1 =>
          if negb (is_valid T b1) then (inl MoveIsNotValid, unmake b1 r)
          else
            let is_check := is_current_in_check T b1 in
            let no_reply := negb (is_any_move_legal T b1 (gen_pseudo T b1)) in
            let is_mate := no_reply && is_check in           (* after the fix: `#` only when in check *)
            let same := filter (fun m => (piece_moved m =? piece_moved r) && (dst m =? dst r))
                               (filter (is_move_legal T b) moves) in
            let share_rank := existsb (fun m => (rank_of (src m) =? rank_of (src r)) && negb (file_of (src m) =? file_of (src r))) same in
            let share_file := existsb (fun m => (file_of (src m) =? file_of (src r)) && negb (rank_of (src m) =? rank_of (src r))) same in
            let others := existsb (fun m => negb (src m =? src r)) same in
            let is_pawn := piece_moved r =? PAWN in
            let capture := is_attack r in
            let piece := if negb is_pawn then [piece_char (piece_moved r) - 32]
                         else if capture then [file_char (src r)] else [] in
            let disamb :=
              if is_pawn then (if share_file then [file_char (src r)] else [])
              else if share_file && share_rank then [file_char (src r); rank_char (src r)]
              else if share_file then [rank_char (src r)]
              else if others then [file_char (src r)]         (* after the fix: any rival => at least the file *)
              else [] in
            let promo_s := if is_promotion r then [61; piece_char (promo r) - 32] else [] in
            let check_s := if is_mate then [35] else if is_check then [43] else [] in
            let text :=
              if (piece_moved r =? KING) && (file_of (src r) =? 4) && (file_of (dst r) =? 6) then lit "O-O" ++ check_s
              else if (piece_moved r =? KING) && (file_of (src r) =? 4) && (file_of (dst r) =? 2) then lit "O-O-O" ++ check_s
              else piece ++ disamb ++ (if capture then [120] else []) ++ square_text (dst r) ++ promo_s ++ check_s in
            (inr text, unmake b1 r)
      end
  end.

(* ---------- pgn_to_bb ---------- *)
Record san_caps := { c_piece : option N; c_from_file : option N; c_from_rank : option N; c_takes : bool;
                     c_target : option str; c_promo : option N; c_castle : bool; c_long : bool }.

Definition is_file_c (c : N) := (97 <=? c) && (c <=? 104).
Definition is_rank_c (c : N) := (49 <=? c) && (c <=? 56).

(* suffix: (check)? (annotation)? $ *)
Definition suffix_ok (s : str) : bool :=
  let s1 := match s with c :: r => if (c =? 43) || (c =? 35) then r else s | [] => s end in
  forallb (fun c => (c =? 33) || (c =? 63)) s1.

(* leftmost-first alternation: each optional group is tried "present" first, then "absent" *)
Definition try_target (pc ff fr : option N) (tk : bool) (s : str) : option san_caps :=
  match s with
  | f :: r :: rest =>
      if is_file_c f && is_rank_c r then
        let with_promo :=
          match rest with
          | 61 :: p :: rest' =>
              if mem_chr p (lit "BNRQ") && suffix_ok rest'
              then Some {| c_piece := pc; c_from_file := ff; c_from_rank := fr; c_takes := tk; c_target := Some [f; r];
                           c_promo := Some p; c_castle := false; c_long := false |} else None
          | _ => None end in
        match with_promo with
        | Some c => Some c
        | None => if suffix_ok rest
                  then Some {| c_piece := pc; c_from_file := ff; c_from_rank := fr; c_takes := tk; c_target := Some [f; r];
                               c_promo := None; c_castle := false; c_long := false |} else None
        end
      else None
  | _ => None
  end.
Definition try_takes (pc ff fr : option N) (s : str) : option san_caps :=
  match (match s with 120 :: r => try_target pc ff fr true r | _ => None end) with
  | Some c => Some c | None => try_target pc ff fr false s end.
Definition try_rank (pc ff : option N) (s : str) : option san_caps :=
  match (match s with c :: r => if is_rank_c c then try_takes pc ff (Some c) r else None | _ => None end) with
  | Some c => Some c | None => try_takes pc ff None s end.
Definition try_file (pc : option N) (s : str) : option san_caps :=
  match (match s with c :: r => if is_file_c c then try_rank pc (Some c) r else None | _ => None end) with
  | Some c => Some c | None => try_rank pc None s end.
Definition try_piece (s : str) : option san_caps :=
  match (match s with c :: r => if mem_chr c (lit "BNRQK") then try_file (Some c) r else None | _ => None end) with
  | Some c => Some c | None => try_file None s end.
Definition try_castle (s : str) : option san_caps :=
  let mk l := {| c_piece := None; c_from_file := None; c_from_rank := None; c_takes := false; c_target := None;
                 c_promo := None; c_castle := true; c_long := l |} in
  match s with
  | 79 :: 45 :: 79 :: rest =>
      match (match rest with 45 :: 79 :: rest' => if suffix_ok rest' then Some (mk true) else None | _ => None end) with
      | Some c => Some c
      | None => if suffix_ok rest then Some (mk false) else None
      end
  | _ => None
  end.
Definition pgn_regex (s : str) : option san_caps :=
  match try_piece s with Some c => Some c | None => try_castle s end.

Definition piece_of_letter (c : N) : N :=
  if c =? 75 then KING else if c =? 81 then QUEEN else if c =? 82 then ROOK else if c =? 66 then BISHOP else KNIGHT.

Definition pgn_to_bb (b : board) (s : str) : option move :=
  match pgn_regex s with
  | None => None
  | Some c =>
      let moves := gen_legal T b in
      let file_ok (m : move) := match c_from_file c with Some f => file_of (src m) =? f - 97 | None => true end in
      let rank_ok (m : move) := match c_from_rank c with Some r => rank_of (src m) =? 8 - (r - 48) | None => true end in
      let target_ok (m : move) := match c_target c with Some t => dst m =? square_of_text t | None => false end in
      let cand :=
        match c_piece c with
        | Some p =>
            filter (fun m => (piece_moved m =? piece_of_letter p) && (negb (c_takes c) || is_attack m)
                             && file_ok m && rank_ok m && target_ok m) moves
        | None =>
            if c_castle c then
              filter (fun m => castle m && (file_of (dst m) =? (if c_long c then 2 else 6))) moves
            else
              filter (fun m => (piece_moved m =? PAWN) && (negb (c_takes c) || is_attack m)
                               && (match c_promo c with
                                   | Some p => is_promotion m && (promo m =? piece_of_letter p)
                                   | None => true end)
                               && file_ok m && target_ok m) moves
        end in
      match filter (is_move_legal T b) cand with
      | [m] => Some m
      | _ => None
      end
  end.

End WithTables.

(* Model/SearchCore.v : pure functional mirror of the value computation of
   engine_core/src/engine/search.rs  `search_negamax` (l.322-494) and `search_quiescence` (l.496-548)
   on an abstract game (same parameters as Spec/Minimax.v).  No proofs here (Proofs/AlphaBeta.v).

   What is mirrored: window handling, fail-soft best value in negamax, fail-hard clamping in quiescence,
   the horizon decision, transposition probe / store rules, the `is_checkmate` store exception, the
   root "no pseudo-legal move" exit, the repetition leaf (as a hook).
   What is abstracted: moves are identified with the positions they lead to (a ValuedMove chain is a
   list of positions); the ordering (`MoveOrder::sort` with pv / tt / killer move) is an arbitrary oracle;
   polling, the stop flag and metrics are not modelled (C08 speaks about searches that are not
   interrupted).

   A result is (value, chain): ValuedMove { value, mv, pv_child } flattened. *)
Require Import NArith ZArith List Bool.
Import ListNotations.
Open Scope Z_scope.

Section Core.
Variable pos : Type.
Variable succs : pos -> list pos.             (* legal successors, generation order *)
Variable noisy_succs : pos -> list pos.       (* legal successors by capture / promotion *)
Variable noisy_any : pos -> bool.             (* is_any_move_non_quiescent(pseudo-legal buffer) *)
Variable static : pos -> Z.                   (* evaluate(.., true)  *)
Variable terminal : pos -> Z.                 (* evaluate(.., false) *)
Variable W : Z.                               (* win_score; loss_score = - W *)
Variable qfuel : pos -> nat.                  (* recursion bound for quiescence (Spec: qmeasure) *)

Definition res : Type := (Z * list pos)%type.

(* ------------------------------------------------------------------ *)
(* search_quiescence                                                    *)

(* `move_order.sort(buffer, None, None, None)` : some permutation *)
Variable order_q : pos -> list pos -> list pos.

(* the `for mv in buffer` loop, l.519-544; alpha is the running alpha, bpv = (best_move, best_child) *)
Fixpoint qloop (f : pos -> Z -> Z -> res) (l : list pos) (alpha beta : Z) (bpv : list pos) : res :=
  match l with
  | [] => (alpha, bpv)                                            (* l.547 *)
  | c :: r =>
      let child := f c (- beta) (- alpha) in                      (* l.529 *)
      let v := - fst child in
      if v >=? beta then (beta, c :: snd child)                   (* l.534-537 : fail hard *)
      else if v >? alpha then qloop f r v beta (c :: snd child)   (* l.539-543 *)
      else qloop f r alpha beta bpv
  end.

Fixpoint qs_ab (fuel : nat) (p : pos) (alpha beta : Z) : res :=
  let sp := static p in                                           (* l.501 *)
  if sp >=? beta then (beta, [])                                  (* l.503-506 *)
  else
    let alpha' := Z.max alpha sp in                               (* l.508 *)
    match fuel with
    | O => (alpha', [])                                           (* out of fuel; unreachable for fuel >= qmeasure *)
    | S k => qloop (qs_ab k) (order_q p (noisy_succs p)) alpha' beta []
    end.

(* ------------------------------------------------------------------ *)
(* search_negamax without transposition table                           *)

(* path = positions from the parent up to the root (nearest first); [] at the root.  A search visits every
   path at most once, so an oracle indexed by the path covers any ordering that depends on the evolving
   killer table / stored pv / table move. *)
Variable order : list pos -> pos -> list pos -> list pos.
(* repetition leaf l.359-363: Some (draw +- contempt) when the position occurred three times; consulted for ply > 0 only *)
Variable rep : list pos -> pos -> option Z.
(* l.394-401: at the root, "pseudo-legal buffer (after the searchmoves filter) is empty" *)
Variable root_empty : pos -> bool.

Definition is_root (path : list pos) : bool := match path with [] => true | _ :: _ => false end.
Definition rep_leaf (path : list pos) (p : pos) : option Z := if is_root path then None else rep path p.

(* the move loop l.427-470 *)
Fixpoint loop (f : pos -> Z -> Z -> res) (l : list pos) (alpha beta best : Z) (bpv : list pos) : res :=
  match l with
  | [] => (best, bpv)
  | c :: r =>
      let child := f c (- beta) (- alpha) in                      (* l.438-447 *)
      let v := - fst child in                                     (* l.454 *)
      let best' := if v >? best then v else best in               (* l.456-460 *)
      let bpv' := if v >? best then c :: snd child else bpv in
      let alpha' := Z.max alpha best' in                          (* l.462 *)
      if alpha' >=? beta then (best', bpv')                       (* l.466-469 *)
      else loop f r alpha' beta best' bpv'
  end.

(* horizon branch l.403-414, with the window in force at that point *)
Definition horizon_ab (p : pos) (alpha beta : Z) : res :=
  match succs p with
  | [] => (terminal p, [])
  | _ :: _ => if noisy_any p then qs_ab (qfuel p) p alpha beta else (static p, [])
  end.

(* d = remaining draft = max_ply - ply_depth_from_root *)
Fixpoint negamax_ab (d : nat) (path : list pos) (p : pos) (alpha beta : Z) : res :=
  match rep_leaf path p with
  | Some v => (v, [])
  | None =>
    if is_root path && root_empty p then (0, [])
    else match d with
    | O => horizon_ab p alpha beta
    | S k =>
        match succs p with
        | [] => (terminal p, [])                                  (* l.472-475 *)
        | l => loop (negamax_ab k (p :: path)) (order path p l) alpha beta (- W) []
        end
    end
  end.

(* ------------------------------------------------------------------ *)
(* search_negamax with the transposition table                          *)

Inductive ntype : Type := Exact | Lower | Upper.
Record entry : Type := { e_depth : nat; e_value : Z; e_type : ntype; e_pv : list pos }.
(* TtEntry.mv is the ValuedMove of the node that was stored; its value field is the same number as TtEntry.value
   (l.477, l.488), so the pair (e_value, e_pv) stands for `tt_entry.mv`. *)

Variable table : Type.
Variable tt_get : table -> N -> option entry.
Variable tt_put : table -> N -> entry -> table.
Variable key : pos -> N.                      (* zobrist hash *)
Variable M : Z.                               (* MAX_FULL_MOVES *)

Definition is_mate_score (v : Z) : bool := (v >? W - M) || (v <? - W + M).     (* Heuristic::is_checkmate *)

Definition tres : Type := (res * table)%type.

(* probe, l.365-389.  inl r : return the stored move;  inr (alpha, beta) : go on with this window *)
Definition probe (tt : table) (d : nat) (p : pos) (alpha0 beta0 : Z) : res + (Z * Z) :=
  match tt_get tt (key p) with
  | None => inr (alpha0, beta0)
  | Some e =>
      if (d <=? e_depth e)%nat then
        match e_type e with
        | Exact => inl (e_value e, e_pv e)
        | Lower => let alpha := Z.max alpha0 (e_value e) in
                   if alpha >=? beta0 then inl (e_value e, e_pv e) else inr (alpha, beta0)
        | Upper => let beta := Z.min beta0 (e_value e) in
                   if alpha0 >=? beta then inl (e_value e, e_pv e) else inr (alpha0, beta)
        end
      else inr (alpha0, beta0)
  end.

Fixpoint loop_tt (f : pos -> Z -> Z -> table -> tres) (l : list pos) (alpha beta best : Z) (bpv : list pos)
                 (tt : table) : tres :=
  match l with
  | [] => ((best, bpv), tt)
  | c :: r =>
      let cr := f c (- beta) (- alpha) tt in
      let child := fst cr in
      let tt1 := snd cr in
      let v := - fst child in
      let best' := if v >? best then v else best in
      let bpv' := if v >? best then c :: snd child else bpv in
      let alpha' := Z.max alpha best' in
      if alpha' >=? beta then ((best', bpv'), tt1)
      else loop_tt f r alpha' beta best' bpv' tt1
  end.

(* l.479-489 : classification against alpha_ORIGINAL and the beta in force after the probe *)
Definition node_type (best alpha0 beta : Z) : ntype :=
  if best <=? alpha0 then Upper else if best >=? beta then Lower else Exact.

Definition store (tt : table) (d : nat) (p : pos) (best alpha0 beta : Z) (bpv : list pos) : table :=
  if is_mate_score best then tt
  else tt_put tt (key p) {| e_depth := d; e_value := best; e_type := node_type best alpha0 beta; e_pv := bpv |}.

Fixpoint negamax_tt (d : nat) (path : list pos) (p : pos) (alpha0 beta0 : Z) (tt : table) : tres :=
  match rep_leaf path p with
  | Some v => ((v, []), tt)
  | None =>
    match probe tt d p alpha0 beta0 with
    | inl r => (r, tt)
    | inr (alpha, beta) =>
      if is_root path && root_empty p then ((0, []), tt)
      else match d with
      | O => (horizon_ab p alpha beta, tt)
      | S k =>
          match succs p with
          | [] => ((terminal p, []), tt)
          | l =>
              let lr := loop_tt (negamax_tt k (p :: path)) (order path p l) alpha beta (- W) [] tt in
              let best := fst (fst lr) in
              let bpv := snd (fst lr) in
              ((best, bpv), store (snd lr) d p best alpha0 beta bpv)
          end
      end
    end
  end.

End Core.

(* ------------------------------------------------------------------ *)
(* best_move l.225-292, value part, without time control: the table is cleared once (l.226), then iterations
   depth = d, d+1, ..., d+n run on the SAME table (l.248-258); the ordering oracle may differ from iteration to
   iteration (killers, previous pv, table moves).  Result: the last iteration's result and the final table. *)
Section Deepen.
Variable pos : Type.
Variable succs : pos -> list pos.
Variable noisy_succs : pos -> list pos.
Variable noisy_any : pos -> bool.
Variable static : pos -> Z.
Variable terminal : pos -> Z.
Variable W : Z.
Variable qfuel : pos -> nat.
Variable order_q : pos -> list pos -> list pos.
Variable order_it : nat -> list pos -> pos -> list pos -> list pos.     (* iteration depth -> oracle *)
Variable rep : list pos -> pos -> option Z.
Variable root_empty : pos -> bool.
Variable table : Type.
Variable tt_get : table -> N -> option (entry pos).
Variable tt_put : table -> N -> entry pos -> table.
Variable key : pos -> N.
Variable M : Z.

Definition iteration (d : nat) (p : pos) (tt : table) : tres pos table :=
  negamax_tt pos succs noisy_succs noisy_any static terminal W qfuel order_q (order_it d) rep root_empty
             table tt_get tt_put key M d [] p (- W) W tt.

Fixpoint deepen (n : nat) (d : nat) (p : pos) (tt : table) : tres pos table :=
  let r := iteration d p tt in
  match n with
  | O => r
  | S n' => deepen n' (S d) p (snd r)
  end.

(* `go depth D` (D >= 1; l.237 maps 0 to 1) on a cleared table tt0 *)
Definition go_depth (D : nat) (p : pos) (tt0 : table) : tres pos table := deepen (pred D) 1 p tt0.

End Deepen.

(* JSON values and a total text parser, modelling serde_json's text layer (serde_json 1.0.x, `from_str`,
   default features) as far as the correspondence for C19 needs it:
   - grammar of RFC 8259, whitespace = space / TAB / LF / CR, nothing may follow the value;
   - strings: raw control characters (< 0x20) are errors; escapes (quote, backslash, slash, b f n r t, uXXXX with hex digits
     of either case); a high surrogate must be followed by an escaped low surrogate, lone surrogates are
     errors;  [JStr s escaped] remembers whether the source text used ANY backslash escape, because
     serde_json can lend a borrowed `&str` only for escape-free strings;
   - numbers: an integer literal (no fraction, no exponent) in  -2^63 .. 2^64-1  is [JNum]; everything else
     that is a syntactically valid number (fraction / exponent / out of that range / "-0") is [JFloat raw]
     (serde_json turns these into f64).  NOT modelled: literals whose f64 value overflows to infinity are an
     error in serde_json ("number out of range"); the generators keep float literals small;
   - duplicate keys are kept, in order;
   - nesting depth: serde_json's recursion limit (128) is modelled by the structural argument [d].
   The element / member loops run on an explicit fuel [n] (> length of the text); running out of it is the
   distinguished result [PFuel], unreachable for [parse_json] (Proofs/SerdeProofs.v, parse_json_fuel). *)
Require Import Ink.Lib.Str.
Require Import NArith ZArith List Bool.
Import ListNotations.
Open Scope N_scope.

Inductive json :=
| JNull
| JBool (b : bool)
| JNum (z : Z)
| JFloat (raw : str)
| JStr (s : str) (escaped : bool)
| JArr (l : list json)
| JObj (l : list (str * json)).

Inductive pres (A : Type) := POk (a : A) (rest : str) | PErr | PFuel.
Arguments POk {A} _ _.
Arguments PErr {A}.
Arguments PFuel {A}.

Definition is_json_ws (c : N) : bool := (c =? 32) || (c =? 9) || (c =? 10) || (c =? 13).
Fixpoint skip_ws (x : str) : str :=
  match x with c :: r => if is_json_ws c then skip_ws r else x | [] => [] end.

Definition hexv (c : N) : option N :=
  if (48 <=? c) && (c <=? 57) then Some (c - 48)
  else if (97 <=? c) && (c <=? 102) then Some (c - 87)
  else if (65 <=? c) && (c <=? 70) then Some (c - 55)
  else None.
Definition hex4 (a b c d : N) : option N :=
  match hexv a, hexv b, hexv c, hexv d with
  | Some x, Some y, Some z, Some w => Some (((x * 16 + y) * 16 + z) * 16 + w)
  | _, _, _, _ => None
  end.

(* after the opening quote: (contents, used an escape?, rest after the closing quote) *)
Fixpoint parse_string (x : str) : option (str * bool * str) :=
  match x with
  | [] => None
  | c :: r =>
    if c =? 34 then Some ([], false, r)
    else if c <? 32 then None
    else if c =? 92 then
      match r with
      | [] => None
      | e :: r1 =>
        let simple (v : N) := match parse_string r1 with Some (s, _, r') => Some (v :: s, true, r') | None => None end in
        if e =? 34 then simple 34
        else if e =? 92 then simple 92
        else if e =? 47 then simple 47
        else if e =? 98 then simple 8
        else if e =? 102 then simple 12
        else if e =? 110 then simple 10
        else if e =? 114 then simple 13
        else if e =? 116 then simple 9
        else if e =? 117 then
          match r1 with
          | h1 :: h2 :: h3 :: h4 :: r2 =>
            match hex4 h1 h2 h3 h4 with
            | None => None
            | Some n1 =>
              if (56320 <=? n1) && (n1 <=? 57343) then None                 (* lone low surrogate *)
              else if (55296 <=? n1) && (n1 <=? 56319) then
                match r2 with
                | b1 :: u1 :: g1 :: g2 :: g3 :: g4 :: r3 =>
                  if (b1 =? 92) && (u1 =? 117) then
                    match hex4 g1 g2 g3 g4 with
                    | None => None
                    | Some n2 =>
                      if (56320 <=? n2) && (n2 <=? 57343) then
                        match parse_string r3 with
                        | Some (s, _, r') => Some ((65536 + (n1 - 55296) * 1024 + (n2 - 56320)) :: s, true, r')
                        | None => None
                        end
                      else None
                    end
                  else None
                | _ => None
                end
              else
                match parse_string r2 with Some (s, _, r') => Some (n1 :: s, true, r') | None => None end
            end
          | _ => None
          end
        else None
      end
    else
      match parse_string r with Some (s, e, r') => Some (c :: s, e, r') | None => None end
  end.

Fixpoint take_digits (x : str) : str * str :=
  match x with
  | c :: r => if is_ascii_digit c then let (d, r') := take_digits r in (c :: d, r') else ([], x)
  | [] => ([], [])
  end.
Fixpoint digits_val (acc : N) (x : str) : N :=
  match x with c :: r => digits_val (acc * 10 + (c - 48)) r | [] => acc end.

(* x starts at the first character of the number *)
Definition parse_number (x : str) : option (json * str) :=
  let (neg, x1) := match x with c :: r => if c =? 45 then (true, r) else (false, x) | [] => (false, x) end in
  let (ip, x2) := take_digits x1 in
  match ip with
  | [] => None
  | d0 :: more =>
    if (d0 =? 48) && nonempty more then None                    (* leading zero *)
    else
      let frac := match x2 with
                  | c :: r =>
                    if c =? 46 then
                      let (fp, x3) := take_digits r in
                      match fp with [] => None | _ => Some (true, 46 :: fp, x3) end
                    else Some (false, [], x2)
                  | [] => Some (false, [], x2)
                  end in
      match frac with
      | None => None
      | Some (has_frac, ftxt, x3) =>
        let expo := match x3 with
                    | e :: r =>
                      if (e =? 101) || (e =? 69) then
                        let (sg, r1) := match r with
                                        | s :: r' => if (s =? 43) || (s =? 45) then ([s], r') else ([], r)
                                        | [] => ([], r) end in
                        let (ep, x4) := take_digits r1 in
                        match ep with [] => None | _ => Some (true, e :: sg ++ ep, x4) end
                      else Some (false, [], x3)
                    | [] => Some (false, [], x3)
                    end in
        match expo with
        | None => None
        | Some (has_exp, etxt, x4) =>
          let raw := (if neg then [45] else []) ++ ip ++ ftxt ++ etxt in
          if has_frac || has_exp then Some (JFloat raw, x4)
          else
            let v := digits_val 0 ip in
            if neg then
              if (v =? 0) || (9223372036854775808 <? v) then Some (JFloat raw, x4)
              else Some (JNum (- Z.of_N v)%Z, x4)
            else
              if 18446744073709551615 <? v then Some (JFloat raw, x4) else Some (JNum (Z.of_N v), x4)
        end
      end
  end.

Definition expect_lit (l : str) (v : json) (x : str) : pres json :=
  if starts_with l x then POk v (skipn (length l) x) else PErr.

(* the element / member loops, parameterised by the parser [pv] for the nested values (one level deeper) *)
Fixpoint elems_loop (pv : str -> pres json) (m : nat) (y : str) (acc : list json) {struct m} : pres json :=
  match m with
  | O => PFuel
  | S m' =>
    match pv y with
    | POk v y1 =>
      match skip_ws y1 with
      | c :: y2 =>
        if c =? 44 then elems_loop pv m' y2 (v :: acc)
        else if c =? 93 then POk (JArr (rev (v :: acc))) y2
        else PErr
      | [] => PErr
      end
    | PErr => PErr
    | PFuel => PFuel
    end
  end.

Fixpoint members_loop (pv : str -> pres json) (m : nat) (y : str) (acc : list (str * json)) {struct m} : pres json :=
  match m with
  | O => PFuel
  | S m' =>
    match skip_ws y with
    | q :: y0 =>
      if q =? 34 then
        match parse_string y0 with
        | None => PErr
        | Some (k, _, y1) =>
          match skip_ws y1 with
          | c :: y2 =>
            if c =? 58 then
              match pv y2 with
              | POk v y3 =>
                match skip_ws y3 with
                | c' :: y4 =>
                  if c' =? 44 then members_loop pv m' y4 ((k, v) :: acc)
                  else if c' =? 125 then POk (JObj (rev ((k, v) :: acc))) y4
                  else PErr
                | [] => PErr
                end
              | PErr => PErr
              | PFuel => PFuel
              end
            else PErr
          | [] => PErr
          end
        end
      else PErr
    | [] => PErr
    end
  end.

Definition starts_with_chr (c : N) (x : str) : bool := match x with y :: _ => y =? c | [] => false end.

Fixpoint parse_value (d : nat) (n : nat) (x : str) {struct d} : pres json :=
  match skip_ws x with
  | [] => PErr
  | c :: r =>
    if c =? 110 then expect_lit (lit "null") JNull (c :: r)
    else if c =? 116 then expect_lit (lit "true") (JBool true) (c :: r)
    else if c =? 102 then expect_lit (lit "false") (JBool false) (c :: r)
    else if c =? 34 then
      match parse_string r with Some (s, e, r') => POk (JStr s e) r' | None => PErr end
    else if c =? 91 then                                             (* [ *)
      match d with
      | O => PErr                                                     (* recursion limit exceeded *)
      | S d' =>
        if starts_with_chr 93 (skip_ws r) then POk (JArr []) (tl (skip_ws r))
        else elems_loop (parse_value d' n) n r []
      end
    else if c =? 123 then                                            (* { *)
      match d with
      | O => PErr
      | S d' =>
        if starts_with_chr 125 (skip_ws r) then POk (JObj []) (tl (skip_ws r))
        else members_loop (parse_value d' n) n r []
      end
    else if (c =? 45) || is_ascii_digit c then
      match parse_number (c :: r) with Some (v, r') => POk v r' | None => PErr end
    else PErr
  end.

Definition recursion_limit : nat := 127.

Definition parse_json_res (x : str) : pres json :=
  match parse_value recursion_limit (S (length x)) x with
  | POk v rest => match skip_ws rest with [] => POk v [] | _ => PErr end
  | PErr => PErr
  | PFuel => PFuel
  end.

Definition parse_json (x : str) : option json :=
  match parse_json_res x with POk v _ => Some v | _ => None end.

(* ---- canonical rendering (observations): no spaces, keys in the order given, the only escapes are
        backslash-quote, backslash-backslash and \u00XX for control characters; everything else raw ---- *)
Definition hex2 (c : N) : str := [hex_digit (c / 16); hex_digit (c mod 16)].
Definition render_chr (c : N) : str :=
  if c =? 34 then [92; 34]
  else if c =? 92 then [92; 92]
  else if c <? 32 then [92; 117; 48; 48] ++ hex2 c
  else [c].
Definition render_str (s : str) : str := 34 :: flat_map render_chr s ++ [34].

Fixpoint render (j : json) : str :=
  match j with
  | JNull => lit "null"
  | JBool true => lit "true"
  | JBool false => lit "false"
  | JNum z => show_Z z
  | JFloat raw => raw
  | JStr s _ => render_str s
  | JArr l =>
    91 :: (fix go (l : list json) : str :=
             match l with
             | [] => []
             | [a] => render a
             | a :: r => render a ++ 44 :: go r
             end) l ++ [93]
  | JObj l =>
    123 :: (fix go (l : list (str * json)) : str :=
              match l with
              | [] => []
              | [(k, a)] => render_str k ++ 58 :: render a
              | (k, a) :: r => render_str k ++ 58 :: render a ++ 44 :: go r
              end) l ++ [125]
  end.

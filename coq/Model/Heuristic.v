(* Model of engine_core/src/engine/heuristic.rs (trait Heuristic: evaluate, score_from_value, is_checkmate) and
   engine_core/src/engine/heuristic/simple.rs (SimpleHeuristic: piece_value, game_stage, piece_square_value,
   evaluate_ongoing), plus `calculate_heuristic_factor` of search.rs.  Values are from WHITE's point of view.

   Integer widths.  All values are i32 in the Rust.  `piece_value` is computed in u32 (at most 64 * 900 per
   term) and cast; the piece-square sums are at most 64 * 50 per piece kind; `win_score` = 2^24.  The only
   operand that is not small is `fullmove_clock as i32` (a u32 reinterpreted as i32, [to_i32]); the additions
   `loss_score + fullmove as i32`, `win_score - fullmove as i32` and the `mate_in` expression are modelled in
   unbounded Z: they cannot wrap unless the full-move number is within 2^24 of 2^31 (debug profile: panic).

   NO proofs here. *)
Require Import Ink.Lib.Str.
Require Import NArith ZArith List Bool.
Require Import Ink.Lib.Bits Ink.Model.Tables Ink.Model.Board.
Import ListNotations.
Open Scope N_scope.

(* u32 -> i32 reinterpretation (`x as i32`) *)
Definition to_i32 (n : N) : Z :=
  let m := n mod 4294967296 in
  if m <? 2147483648 then Z.of_N m else (Z.of_N m - 4294967296)%Z.

(* board/constants.rs: EARLY = 0, MID = 1, LATE = 2 *)
Definition MID : N := 1.
Definition LATE : N := 2.

(* search.rs: const fn calculate_heuristic_factor(color) -> i32 { 1 + (color as i32) * -2 } *)
Definition heuristic_factor (color : N) : Z := (1 + Z.of_N color * -2)%Z.

(* Score::{Centipawn, Mate} *)
Inductive score := Cp (v : Z) | Mate (n : Z).

Section WithTables.
Variable T : Tables.t.

Definition loss_score : Z := (- win_score T)%Z.

(* value > win_score - MAX_FULL_MOVES || value < loss_score + MAX_FULL_MOVES *)
Definition is_checkmate (value : Z) : bool :=
  ((win_score T - max_full_moves T <? value) || (value <? loss_score + max_full_moves T))%Z.

(* SimpleHeuristic::piece_value : u32 arithmetic, then `as i32` *)
Definition piece_value (p : pstate) : Z :=
  to_i32 (popcount (queens p) * val_q T + popcount (rooks p) * val_r T + popcount (bishops p) * val_b T
          + popcount (knights p) * val_n T + popcount (pawns p) * val_p T).

(* SimpleHeuristic::game_stage *)
Definition game_stage (b : board) : N :=
  let wq := nz (queens (white b)) in
  let bq := nz (queens (black b)) in
  let w_minor := popcount (N.lor (knights (white b)) (bishops (white b))) <=? 1 in
  let b_minor := popcount (N.lor (knights (black b)) (bishops (black b))) <=? 1 in
  let wq_few := wq && w_minor in
  let bq_few := bq && b_minor in
  if (negb wq && negb bq) || (wq_few && negb bq) || (bq_few && negb wq) || (w_minor && b_minor) then LATE else MID.

(* piece_square_sum: one table value per set bit, lowest bit first *)
Definition piece_square_sum (occ : N) (values : list Z) : Z :=
  fold_left (fun sum sq => (sum + nthN values sq 0)%Z) (bits_of occ) 0%Z.

(* piece_square_sum_for_player: tables[piece - 1] *)
Definition piece_square_sum_for_player (p : pstate) (tables : list (list Z)) : Z :=
  (piece_square_sum (pawns p) (nthN tables (PAWN - 1) [])
   + piece_square_sum (knights p) (nthN tables (KNIGHT - 1) [])
   + piece_square_sum (bishops p) (nthN tables (BISHOP - 1) [])
   + piece_square_sum (rooks p) (nthN tables (ROOK - 1) [])
   + piece_square_sum (queens p) (nthN tables (QUEEN - 1) [])
   + piece_square_sum (kings p) (nthN tables (KING - 1) []))%Z.

Definition piece_square_value (b : board) : Z :=
  let stage := game_stage b in
  (piece_square_sum_for_player (white b) (nthN (pst_white T) stage [])
   + piece_square_sum_for_player (black b) (nthN (pst_black T) stage []))%Z.

(* SimpleHeuristic::evaluate_ongoing (the pawn hash argument is ignored by the Rust) *)
Definition evaluate_ongoing (b : board) : Z :=
  (piece_value (white b) - piece_value (black b) + piece_square_value b)%Z.

(* Heuristic::evaluate *)
Definition evaluate (b : board) (legal_moves_remaining : bool) : Z :=
  if legal_moves_remaining then
    if max_half_moves T <=? half b then draw_score T else evaluate_ongoing b
  else
    if is_current_in_check T b then
      if turn b =? WHITE then (loss_score + to_i32 (full b))%Z
      else if turn b =? BLACK then (win_score T - to_i32 (full b))%Z
      else draw_score T
    else draw_score T.

(* Heuristic::score_from_value.  i32 `/` truncates towards zero: win_score / 2 with win_score > 0. *)
Definition score_from_value (value : Z) (b : board) : score :=
  if (Z.quot (win_score T) 2 <? Z.abs value)%Z then
    let offset := if (0 <? value)%Z && (turn b =? WHITE) then 1%Z else 0%Z in
    Mate ((win_score T - Z.abs value - to_i32 (full b) + offset) * Z.sgn value)%Z
  else Cp value.

End WithTables.

(* Model/ConsoleTx.v : executable mirror of `ConsoleUciTx` (uci/src/uci/console.rs, impl UciTx) and of the Display
   impls it uses (uci/src/uci.rs: UciMove, Bound, ProtectionMessage; core: Square::fen, Piece::fen).
   One `tx_msg` = one call of a `UciTx` method; `tx` gives what that call does to the stdout consumer:
     Line s   the consumer is called once with s (the engine binary prints s and a line feed)
     Silent   nothing reaches the stdout consumer (`debug` goes to the debug consumer, and only in debug mode)
     Panic    the `assert!(!name.is_empty())` of id_name / id_author fails
   Numbers: u32/u64/u128 fields are N, i32 fields are Z, rendered in decimal like Rust's Display.
   `Duration` is held as whole milliseconds (`as_millis()` is what gets printed).
   A move is (source square, target square, promotion piece): squares are `Square::shift` (0 = a8 .. 63 = h1),
   pieces are `Piece::index` (1 pawn, 2 knight, 3 bishop, 4 rook, 5 queen, 6 king).  No proofs here. *)
Require Import Ink.Lib.Str.
Require Import NArith ZArith List Bool.
Import ListNotations.
Open Scope N_scope.

Definition mv := (N * N * option N)%type.

(* Square::fen *)
Definition show_square (sq : N) : str := [97 + sq mod 8; 48 + (8 - sq / 8)].
(* Piece::fen *)
Definition piece_fen (p : N) : N := nth (N.to_nat p) (lit "?pnbrqk") 63.
(* impl Display for UciMove: "{}{}{}" source.fen target.fen promote_to.map_or("", fen) *)
Definition show_move (m : mv) : str :=
  match m with
  | (s, d, p) => show_square s ++ show_square d ++ match p with Some x => [piece_fen x] | None => [] end
  end.

Inductive bound := LOWER | UPPER.
Definition show_bound (b : bound) : str := match b with LOWER => lit "lowerbound" | UPPER => lit "upperbound" end.

Inductive score :=
| Centipawn (sc : Z)
| CentipawnBounded (sc : Z) (b : bound)
| Mate (mate_in : Z).

Inductive protection := CHECKING | OK | ERROR.
Definition show_protection (p : protection) : str :=
  match p with CHECKING => lit "checking" | OK => lit "ok" | ERROR => lit "error" end.

Definition show_bool (b : bool) : str := if b then lit "true" else lit "false".

(* struct Info, in declaration order *)
Record info_record := {
  i_depth : option N;
  i_selective_depth : option N;
  i_time : option N;                         (* milliseconds *)
  i_nodes : option N;
  i_principal_variation : option (list mv);
  i_multi_pv : option N;
  i_score : option score;
  i_current_move : option mv;
  i_current_move_number : option N;
  i_hash_full : option N;
  i_nps : option N;
  i_table_hits : option N;
  i_shredder_table_hits : option N;
  i_cpu_load : option N;
  i_string : option str;
  i_refutation : option (list mv);
  i_current_line : option (N * list mv)      (* CurrentLine { cpu_number, line } *)
}.

(* Info::EMPTY *)
Definition info_empty : info_record :=
  {| i_depth := None; i_selective_depth := None; i_time := None; i_nodes := None; i_principal_variation := None;
     i_multi_pv := None; i_score := None; i_current_move := None; i_current_move_number := None; i_hash_full := None;
     i_nps := None; i_table_hits := None; i_shredder_table_hits := None; i_cpu_load := None; i_string := None;
     i_refutation := None; i_current_line := None |}.

Inductive tx_msg :=
| IdName (name : str)
| IdAuthor (author : str)
| UciOk
| ReadyOk
| BestMove (best_move ponder_move : option mv)
| CopyProtection (p : protection)
| Registration (p : protection)
| Info (info : info_record)
| OptionCheck (name : str) (default : bool)
| OptionSpin (name : str) (default min max : Z)
| OptionCombo (name default : str) (vars : list str)
| OptionButton (name : str)
| OptionString (name default : str)
| Debug (message : str).

Inductive outcome := Panic | Silent | Line (s : str).

(* fn append_maybe: accumulator.push_str(&format!(" {} {}", key, value)) when the value is present *)
Definition append_maybe (acc key : str) (value : option str) : str :=
  match value with
  | Some v => acc ++ [32] ++ key ++ [32] ++ v
  | None => acc
  end.

(* fn move_array_to_string: the moves joined by single spaces ("" for an empty slice) *)
Definition move_array_to_string (ms : list mv) : str := join [32] (map show_move ms).

Definition score_to_string (s : score) : str :=
  match s with
  | Mate m => lit "mate " ++ show_Z m
  | Centipawn c => lit "cp " ++ show_Z c
  | CentipawnBounded c b => lit "cp " ++ show_Z c ++ [32] ++ show_bound b
  end.

Definition current_line_to_string (cl : N * list mv) : str :=
  show_N (fst cl) ++ [32] ++ move_array_to_string (snd cl).

(* fn info: the seventeen append_maybe calls in the coded order (string LAST, unlike the struct order) *)
Definition render_info (i : info_record) : str :=
  let msg := lit "info" in
  let msg := append_maybe msg (lit "depth") (option_map show_N (i_depth i)) in
  let msg := append_maybe msg (lit "seldepth") (option_map show_N (i_selective_depth i)) in
  let msg := append_maybe msg (lit "time") (option_map show_N (i_time i)) in
  let msg := append_maybe msg (lit "nodes") (option_map show_N (i_nodes i)) in
  let msg := append_maybe msg (lit "pv") (option_map move_array_to_string (i_principal_variation i)) in
  let msg := append_maybe msg (lit "multipv") (option_map show_N (i_multi_pv i)) in
  let msg := append_maybe msg (lit "score") (option_map score_to_string (i_score i)) in
  let msg := append_maybe msg (lit "currmove") (option_map show_move (i_current_move i)) in
  let msg := append_maybe msg (lit "currmovenumber") (option_map show_N (i_current_move_number i)) in
  let msg := append_maybe msg (lit "hashfull") (option_map show_N (i_hash_full i)) in
  let msg := append_maybe msg (lit "nps") (option_map show_N (i_nps i)) in
  let msg := append_maybe msg (lit "tbhits") (option_map show_N (i_table_hits i)) in
  let msg := append_maybe msg (lit "sbhits") (option_map show_N (i_shredder_table_hits i)) in
  let msg := append_maybe msg (lit "cpuload") (option_map show_N (i_cpu_load i)) in
  let msg := append_maybe msg (lit "refutation") (option_map move_array_to_string (i_refutation i)) in
  let msg := append_maybe msg (lit "currline") (option_map current_line_to_string (i_current_line i)) in
  let msg := append_maybe msg (lit "string") (i_string i) in
  msg.

(* fn tx_options: format!("option name {} type {} {}", ..).trim() *)
Definition tx_options (name the_type remainder : str) : str :=
  trim (lit "option name " ++ name ++ lit " type " ++ the_type ++ [32] ++ remainder).

Fixpoint vars_string (vars : list str) : str :=
  match vars with [] => [] | v :: r => lit " var " ++ v ++ vars_string r end.

Definition tx (m : tx_msg) : outcome :=
  match m with
  | IdName name => if nonempty name then Line (lit "id name " ++ name) else Panic
  | IdAuthor author => if nonempty author then Line (lit "id author " ++ author) else Panic
  | UciOk => Line (lit "uciok")
  | ReadyOk => Line (lit "readyok")
  | BestMove b p =>
      let move_string := match b with None => lit "0000" | Some m => show_move m end in
      let ponder_string := match p with None => [] | Some m => lit " ponder " ++ show_move m end in
      Line (lit "bestmove " ++ move_string ++ ponder_string)
  | CopyProtection p => Line (lit "copyprotection " ++ show_protection p)
  | Registration p => Line (lit "registration " ++ show_protection p)
  | Info i => Line (render_info i)
  | OptionCheck name d => Line (tx_options name (lit "check") (lit "default " ++ show_bool d))
  | OptionSpin name d mn mx =>
      Line (tx_options name (lit "spin") (lit "default " ++ show_Z d ++ lit " min " ++ show_Z mn ++ lit " max " ++ show_Z mx))
  | OptionCombo name d vars => Line (tx_options name (lit "combo") (lit "default " ++ d ++ vars_string vars))
  | OptionButton name => Line (tx_options name (lit "button") [])
  | OptionString name d => Line (tx_options name (lit "string") (lit "default " ++ d))
  | Debug _ => Silent
  end.

(* the stdout line of a call, if there is one *)
Definition render (m : tx_msg) : option str :=
  match tx m with Line s => Some s | _ => None end.

(* ------------------------------------------------------------------ the Info values built by the engine *)
(* engine_core/src/engine/search.rs, fn best_move: one report per iteration of the deepening loop
     Info { principal_variation: uci_pv.clone(), time: Some(elapsed), score, depth: Some(..),
            string: self.generate_debug_string_if_enabled(), ..self.generate_info() }
   with generate_info() = Info { nodes: Some(..), hash_full: Some(..), nps: Some(..), ..Info::EMPTY }.
   uci_pv / score are None until an iteration has been kept. *)
Definition engine_iteration_info (depth time nodes : N) (pv : option (list mv)) (sc : option score)
                                 (hash_full nps : N) (debug_string : option str) : info_record :=
  {| i_depth := Some depth; i_selective_depth := None; i_time := Some time; i_nodes := Some nodes;
     i_principal_variation := pv; i_multi_pv := None; i_score := sc; i_current_move := None;
     i_current_move_number := None; i_hash_full := Some hash_full; i_nps := Some nps; i_table_hits := None;
     i_shredder_table_hits := None; i_cpu_load := None; i_string := debug_string; i_refutation := None;
     i_current_line := None |}.

(* fn search_negamax, at every poll of the stop flag:  Info { time: Some(elapsed), ..self.generate_info() } *)
Definition engine_periodic_info (time nodes hash_full nps : N) : info_record :=
  {| i_depth := None; i_selective_depth := None; i_time := Some time; i_nodes := Some nodes;
     i_principal_variation := None; i_multi_pv := None; i_score := None; i_current_move := None;
     i_current_move_number := None; i_hash_full := Some hash_full; i_nps := Some nps; i_table_hits := None;
     i_shredder_table_hits := None; i_cpu_load := None; i_string := None; i_refutation := None;
     i_current_line := None |}.

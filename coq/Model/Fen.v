(* Model of core/src/fen.rs (Fen::from_str: the regex as a recogniser + validate_ranks + the u32 clock check)
   and of the FEN <-> Bitboard conversions in board/src/board.rs (FenParseExt, From<&Bitboard> for Fen). *)
Require Import Ink.Lib.Str.
Require Import NArith List Bool.
Require Import Ink.Lib.Bits Ink.Model.Board.
Import ListNotations.
Open Scope N_scope.

Inductive fen_err := ConcurrentNumbers | InvalidCapture | RankWithInvalidPieceCount.

Record fen := { f_text : str; f_placement : str; f_color : str; f_castle : str; f_ep : str;
                f_half : option str; f_full : option str }.

Definition STARTPOS : str := lit "rnbqkbnr/pppppppp/8/8/8/8/PPPPPPPP/RNBQKBNR w KQkq - 0 1".

Definition is_piece_letter (c : N) : bool := mem_chr c (lit "PNBRQKpnbrqk").
Definition is_placement_char (c : N) : bool := is_piece_letter c || ((49 <=? c) && (c <=? 56)).
Definition rank_group_ok (g : str) : bool :=
  (1 <=? N.of_nat (length g)) && (N.of_nat (length g) <=? 8) && forallb is_placement_char g.
Definition placement_ok (p : str) : bool :=
  let gs := split_on 47 p in Nat.eqb (length gs) 8 && forallb rank_group_ok gs.

Definition CASTLE_STRINGS : list str :=
  map lit ["KQkq"; "KQk"; "KQq"; "KQ"; "Kkq"; "Kk"; "Kq"; "K"; "Qkq"; "Qk"; "Qq"; "Q"; "kq"; "k"; "q"; "-"]%string.
Definition castle_ok (s : str) : bool := mem_str s CASTLE_STRINGS.
Definition square_text_ok (s : str) : bool :=
  match s with [f; r] => (97 <=? f) && (f <=? 104) && (49 <=? r) && (r <=? 56) | _ => false end.
Definition ep_ok (s : str) : bool := str_eqb s (lit "-") || square_text_ok s.
(* `\d+` then (since the fix) parse::<u32>().is_ok(): together = ASCII digits that fit a u32 *)
Definition clock_ok (s : str) : bool :=
  nonempty s && forallb is_ascii_digit s && match parse_u32 s with Some _ => true | None => false end.

(* char::to_digit(10).unwrap_or(1) summed *)
Definition rank_count (g : str) : N := fold_left (fun a c => a + (if is_ascii_digit c then digit_val c else 1)) g 0.
Fixpoint adjacent_digits (g : str) : bool :=
  match g with
  | a :: ((b :: _) as r) => (is_ascii_digit a && is_ascii_digit b) || adjacent_digits r
  | _ => false
  end.
Definition validate_rank (g : str) : option fen_err :=
  if negb (rank_count g =? 8) then Some RankWithInvalidPieceCount
  else if adjacent_digits g then Some ConcurrentNumbers else None.
Fixpoint validate_ranks (gs : list str) : option fen_err :=
  match gs with [] => None | g :: r => match validate_rank g with Some e => Some e | None => validate_ranks r end end.

Definition fen_from_str (s : str) : fen_err + fen :=
  if str_eqb s (lit "startpos") then
    inr {| f_text := STARTPOS; f_placement := lit "rnbqkbnr/pppppppp/8/8/8/8/PPPPPPPP/RNBQKBNR"; f_color := lit "w";
           f_castle := lit "KQkq"; f_ep := lit "-"; f_half := Some (lit "0"); f_full := Some (lit "1") |}
  else
    let mk p c k e h f :=
      if placement_ok p && (str_eqb c (lit "w") || str_eqb c (lit "b")) && castle_ok k && ep_ok e then
        match validate_ranks (split_on 47 p) with
        | Some err => inl err
        | None => inr {| f_text := s; f_placement := p; f_color := c; f_castle := k; f_ep := e; f_half := h; f_full := f |}
        end
      else inl InvalidCapture in
    match split_on 32 s with
    | [p; c; k; e] => mk p c k e None None
    | [p; c; k; e; h; f] =>
        (* the regex needs \d+ \d+ : a non-digit clock fails the regex (InvalidCapture) before the ranks are validated;
           a digit string that does not fit u32 is rejected after them, with the same error *)
        if nonempty h && forallb is_ascii_digit h && nonempty f && forallb is_ascii_digit f then
          match mk p c k e (Some h) (Some f) with
          | inl err => inl err
          | inr r => if clock_ok h && clock_ok f then inr r else inl InvalidCapture
          end
        else inl InvalidCapture
    | _ => inl InvalidCapture
    end.

(* ---------- Fen -> Bitboard (FenParseExt) ---------- *)
Definition place (w k : pstate) (c : N) (sq : N) : pstate * pstate :=
  let piece := let l := to_ascii_lower c in
               if l =? 112 then PAWN else if l =? 110 then KNIGHT else if l =? 98 then BISHOP
               else if l =? 114 then ROOK else if l =? 113 then QUEEN else KING in
  if is_ascii_upper c then (or_occ w piece (bit sq), k) else (w, or_occ k piece (bit sq)).

Fixpoint place_rank (w k : pstate) (g : str) (file rank : N) : pstate * pstate :=
  match g with
  | [] => (w, k)
  | c :: r => if is_ascii_digit c then place_rank w k r (file + digit_val c) rank
              else let '(w', k') := place w k c (file + 8 * rank) in place_rank w' k' r (file + 1) rank
  end.
Fixpoint place_ranks (w k : pstate) (gs : list str) (rank : N) : pstate * pstate :=
  match gs with [] => (w, k) | g :: r => let '(w', k') := place_rank w k g 0 rank in place_ranks w' k' r (rank + 1) end.

Definition square_of_text (s : str) : N :=
  match s with [f; r] => (f - 97) + 8 * (8 - (r - 48)) | _ => 0 end.

Definition board_of_fen (f : fen) : board :=
  let '(w, k) := place_ranks empty_pstate empty_pstate (split_on 47 (f_placement f)) 0 in
  let c := f_castle f in
  {| white := set_rights w (contains_chr 81 c) (contains_chr 75 c);
     black := set_rights k (contains_chr 113 c) (contains_chr 107 c);
     turn := if str_eqb (f_color f) (lit "b") then BLACK else WHITE;
     ep := if str_eqb (f_ep f) (lit "-") then NO_SQUARE else square_of_text (f_ep f);
     full := match f_full f with Some x => match parse_u32 x with Some n => n | None => 0 end | None => 1 end;
     half := match f_half f with Some x => match parse_u32 x with Some n => n | None => 0 end | None => 0 end |}.

Definition from_fen_string (s : str) : fen_err + board :=
  match fen_from_str s with inl e => inl e | inr f => inr (board_of_fen f) end.

(* ---------- Bitboard -> Fen ---------- *)
Definition piece_char (piece : N) : N :=
  if piece =? PAWN then 112 else if piece =? KNIGHT then 110 else if piece =? BISHOP then 98
  else if piece =? ROOK then 114 else if piece =? QUEEN then 113 else 107.
Definition square_text (sq : N) : str := [97 + sq mod 8; 48 + (8 - sq / 8)].

(* one rank: files 0..7; None = two pieces on one square (get_colored_piece panics) *)
Fixpoint print_rank (b : board) (rank : N) (files : list N) (empty : N) : option str :=
  match files with
  | [] => Some (if 0 <? empty then [48 + empty] else [])
  | f :: r =>
      let sq := f + 8 * rank in
      let pw := piece_at (white b) sq in let pk := piece_at (black b) sq in
      if negb (pw =? NO_PIECE) && negb (pk =? NO_PIECE) then None
      else if negb (pw =? NO_PIECE) then
        match print_rank b rank r 0 with
        | Some t => Some ((if 0 <? empty then [48 + empty] else []) ++ [piece_char pw - 32] ++ t) | None => None end
      else if negb (pk =? NO_PIECE) then
        match print_rank b rank r 0 with
        | Some t => Some ((if 0 <? empty then [48 + empty] else []) ++ [piece_char pk] ++ t) | None => None end
      else print_rank b rank r (empty + 1)
  end.
Fixpoint print_ranks (b : board) (ranks : list N) : option (list str) :=
  match ranks with
  | [] => Some []
  | r :: rs => match print_rank b r [0;1;2;3;4;5;6;7] 0, print_ranks b rs with
               | Some x, Some xs => Some (x :: xs) | _, _ => None end
  end.

Definition print_fen (b : board) : option str :=
  match print_ranks b [0;1;2;3;4;5;6;7] with
  | None => None
  | Some rs =>
      let castle := (if ks (white b) then [75] else []) ++ (if qs (white b) then [81] else []) ++
                    (if ks (black b) then [107] else []) ++ (if qs (black b) then [113] else []) in
      Some (join [47] rs ++ [32] ++ (if is_white_turn b then [119] else [98]) ++ [32] ++
            (match castle with [] => [45] | _ => castle end) ++ [32] ++
            (if ep b =? NO_SQUARE then [45] else square_text (ep b)) ++ [32] ++
            show_N (half b) ++ [32] ++ show_N (full b))
  end.

(* Executable model of board/src/board.rs: PlayerState, Bitboard, Move, move generation, make/unmake,
   check detection, Zobrist hashing, perft.  Same order of generation, same arithmetic, same tables.
   Squares: shift 0 = a8 ... 7 = h8, 56 = a1 ... 63 = h1 (file = sq mod 8, rank index = sq / 8, 0 = rank 8).
   The `Move` is a record of its fields; the packing into one u64 is dealt with in Model/Layout.v.
   The scratch slot `occupancy[NO_PIECE]` of the Rust PlayerState is not modelled (nothing reads it). *)
Require Import NArith ZArith List Bool.
Require Import Ink.Lib.Bits Ink.Model.Tables.
Import ListNotations.
Open Scope N_scope.

(* ---------- constants of board/constants.rs ---------- *)
Definition WHITE : N := 0.  Definition BLACK : N := 1.
Definition NO_PIECE : N := 0. Definition PAWN : N := 1. Definition KNIGHT : N := 2. Definition BISHOP : N := 3.
Definition ROOK : N := 4. Definition QUEEN : N := 5. Definition KING : N := 6.
Definition NO_SQUARE : N := 0.
Definition A8 : N := 0. Definition C8 : N := 2. Definition D8 : N := 3. Definition E8 : N := 4.
Definition F8 : N := 5. Definition G8 : N := 6. Definition H8 : N := 7.
Definition A1 : N := 56. Definition C1 : N := 58. Definition D1 : N := 59. Definition E1 : N := 60.
Definition F1 : N := 61. Definition G1 : N := 62. Definition H1 : N := 63.

Record pstate := { pawns : N; knights : N; bishops : N; rooks : N; queens : N; kings : N; qs : bool; ks : bool }.
Record board := { white : pstate; black : pstate; turn : N; ep : N; full : N; half : N }.

Record move := {
  piece_moved : N; piece_attacked : N;
  self_lost_ks : bool; self_lost_qs : bool; opp_lost_ks : bool; opp_lost_qs : bool;
  castle : bool; ep_attack : bool;
  src : N; dst : N;
  half_reset : bool; prev_half : N; prev_ep : N; next_ep : N; promo : N; side : N;
  mvvlva : Z
}.

Definition empty_pstate : pstate := {| pawns := 0; knights := 0; bishops := 0; rooks := 0; queens := 0; kings := 0; qs := false; ks := false |}.

Definition occ_of (p : pstate) (piece : N) : N :=
  match piece with
  | 1 => pawns p | 2 => knights p | 3 => bishops p | 4 => rooks p | 5 => queens p | 6 => kings p
  | _ => 0
  end.

Definition set_occ (p : pstate) (piece : N) (v : N) : pstate :=
  match piece with
  | 1 => {| pawns := v; knights := knights p; bishops := bishops p; rooks := rooks p; queens := queens p; kings := kings p; qs := qs p; ks := ks p |}
  | 2 => {| pawns := pawns p; knights := v; bishops := bishops p; rooks := rooks p; queens := queens p; kings := kings p; qs := qs p; ks := ks p |}
  | 3 => {| pawns := pawns p; knights := knights p; bishops := v; rooks := rooks p; queens := queens p; kings := kings p; qs := qs p; ks := ks p |}
  | 4 => {| pawns := pawns p; knights := knights p; bishops := bishops p; rooks := v; queens := queens p; kings := kings p; qs := qs p; ks := ks p |}
  | 5 => {| pawns := pawns p; knights := knights p; bishops := bishops p; rooks := rooks p; queens := v; kings := kings p; qs := qs p; ks := ks p |}
  | 6 => {| pawns := pawns p; knights := knights p; bishops := bishops p; rooks := rooks p; queens := queens p; kings := v; qs := qs p; ks := ks p |}
  | _ => p                              (* slot 0 / out of range: scratch, not modelled *)
  end.

Definition set_rights (p : pstate) (q k : bool) : pstate :=
  {| pawns := pawns p; knights := knights p; bishops := bishops p; rooks := rooks p; queens := queens p; kings := kings p; qs := q; ks := k |}.

(* `occ &= !m` and `occ |= m` on one piece bitboard *)
Definition clr_occ (p : pstate) (piece m : N) : pstate := set_occ p piece (clear (occ_of p piece) m).
Definition or_occ (p : pstate) (piece m : N) : pstate := set_occ p piece (N.lor (occ_of p piece) m).

Definition full_occ (p : pstate) : N :=
  N.lor (N.lor (N.lor (N.lor (N.lor (kings p) (queens p)) (rooks p)) (bishops p)) (knights p)) (pawns p).

Definition nz (x : N) : bool := negb (x =? 0).

(* get_piece_const_by_square_mask *)
Definition piece_at_mask (p : pstate) (m : N) : N :=
  if nz (N.land (pawns p) m) then PAWN
  else if nz (N.land (knights p) m) then KNIGHT
  else if nz (N.land (bishops p) m) then BISHOP
  else if nz (N.land (rooks p) m) then ROOK
  else if nz (N.land (queens p) m) then QUEEN
  else if nz (N.land (kings p) m) then KING
  else NO_PIECE.
Definition piece_at (p : pstate) (sq : N) : N := piece_at_mask p (bit sq).

Definition is_white_turn (b : board) : bool := turn b =? WHITE.
Definition opposite (c : N) : N := 1 - c.
Definition active (b : board) : pstate := if is_white_turn b then white b else black b.
Definition passive (b : board) : pstate := if is_white_turn b then black b else white b.
Definition with_active_passive (b : board) (a p : pstate) : board :=
  if is_white_turn b
  then {| white := a; black := p; turn := turn b; ep := ep b; full := full b; half := half b |}
  else {| white := p; black := a; turn := turn b; ep := ep b; full := full b; half := half b |}.

Section WithTables.
Variable T : Tables.t.

(* ---------- attack lookups (precalculated/magic.rs, nonmagic.rs) ---------- *)
Definition magic_index (c : magic_cfg) (occ : N) : N :=
  N.land (N.shiftr (w64 (N.land occ (mg_mask c) * mg_magic c)) (mg_shift c)) (mg_hash_mask c).
Definition magic_lookup_opt (cfgs : list magic_cfg) (sq occ : N) : option N :=
  match nthN_opt cfgs sq with
  | Some c => nthN_opt (mg_attacks c) (magic_index c occ)
  | None => None
  end.
Definition magic_lookup (cfgs : list magic_cfg) (sq occ : N) : N :=
  match magic_lookup_opt cfgs sq occ with Some a => a | None => 0 end.
Definition rook_attacks (sq occ : N) : N := magic_lookup (rook_magics T) sq occ.
Definition bishop_attacks (sq occ : N) : N := magic_lookup (bishop_magics T) sq occ.
Definition leaper (tbl : list N) (sq : N) : N := nthN tbl sq 0.

Definition rank_mask (i : N) : N := nthN (rank_masks T) (i - 1) 0.     (* RANK_i_OCCUPANCY, i = 1..8 *)
Definition file_mask (i : N) : N := nthN (file_masks T) i 0.           (* FILE_A.. = 0.. *)
Definition RANK_1 := rank_mask 1. Definition RANK_2 := rank_mask 2. Definition RANK_7 := rank_mask 7. Definition RANK_8 := rank_mask 8.

(* ---------- Bitboard::make_move : construct one Move ---------- *)
Definition mvv_lva (piece_active piece_att : N) : Z :=
  if (piece_att =? NO_PIECE) || (piece_att =? KING) then 0%Z
  else (nthN (mvv_values T) piece_att 0 * 256 - nthN (mvv_values T) piece_active 0)%Z.

Definition make_move (b : board) (non_quiescent_only : bool) (source target piece_active : N)
           (is_castle is_ep : bool) (promote_to ep_opportunity : N) : list move :=
  let wt := is_white_turn b in
  let act := active b in let pas := passive b in
  let d_castle := if wt then 0 else 56 in
  let ep_off := if is_ep then 8 else 0 in
  let attack_sq := if wt then target + ep_off else target - ep_off in
  let piece_att := piece_at pas attack_sq in
  if (piece_att =? NO_PIECE) && (promote_to =? NO_PIECE) && non_quiescent_only then []
  else
    let olq := qs pas && (target =? A8 + d_castle) in
    let olk := negb olq && ks pas && (target =? H8 + d_castle) in
    [ {| piece_moved := piece_active; piece_attacked := piece_att;
         self_lost_ks := ks act && ((source =? H1 - d_castle) || (source =? E1 - d_castle));
         self_lost_qs := qs act && ((source =? A1 - d_castle) || (source =? E1 - d_castle));
         opp_lost_ks := olk; opp_lost_qs := olq;
         castle := is_castle; ep_attack := is_ep;
         src := source; dst := target;
         half_reset := (piece_active =? PAWN) || negb (piece_att =? NO_PIECE);
         prev_half := half b mod 4096;            (* 12-bit PREVIOUS_HALFMOVE field *)
         prev_ep := ep b; next_ep := ep_opportunity; promo := promote_to; side := turn b;
         mvvlva := mvv_lva piece_active piece_att |} ].

Definition gen_attacks (b : board) (nq : bool) (source attack_occ piece : N) : list move :=
  flat_map (fun target => make_move b nq source target piece false false NO_PIECE NO_SQUARE) (bits_of attack_occ).

Definition sliding_moves (b : board) (nq : bool) (piece_occ active_occ full : N) (lookup : N -> N -> N) (piece : N) : list move :=
  flat_map (fun source => gen_attacks b nq source (clear (lookup source full) active_occ) piece) (bits_of piece_occ).

Definition single_moves (b : board) (nq : bool) (piece_occ active_occ : N) (tbl : list N) (piece : N) : list move :=
  flat_map (fun source => gen_attacks b nq source (clear (leaper tbl source) active_occ) piece) (bits_of piece_occ).

Definition pawn_promotions (b : board) (source target : N) : list move :=
  make_move b false source target PAWN false false QUEEN NO_SQUARE ++
  make_move b false source target PAWN false false ROOK NO_SQUARE ++
  make_move b false source target PAWN false false BISHOP NO_SQUARE ++
  make_move b false source target PAWN false false KNIGHT NO_SQUARE.

Definition gen_pawn_attacks (b : board) (attack_occ source : N) : list move :=
  flat_map (fun target =>
      let m := bit target in
      if nz (N.land m RANK_8) || nz (N.land m RANK_1) then pawn_promotions b source target
      else make_move b false source target PAWN false (target =? ep b) NO_PIECE NO_SQUARE)
    (bits_of attack_occ).

Definition pawn_attacks (b : board) (pawn_occ active_occ passive_occ : N) : list move :=
  let tbl := if is_white_turn b then wpawn_tbl T else bpawn_tbl T in
  let ep_bit := clear (bit (ep b)) (N.lor RANK_1 RANK_8) in
  flat_map (fun source =>
      gen_pawn_attacks b (clear (N.land (leaper tbl source) (N.lor passive_occ ep_bit)) active_occ) source)
    (bits_of pawn_occ).

Definition pawn_moves (b : board) (nq : bool) (pawn_occ full : N) : list move :=
  let wt := is_white_turn b in
  flat_map (fun source =>
      let sm := bit source in
      let single := if wt then N.shiftr sm 8 else w64 (N.shiftl sm 8) in
      let promote_rank := if wt then RANK_8 else RANK_1 in
      let single_sq := ctz64 single in
      if nz (N.land single full) then []
      else if nz (N.land single promote_rank) then pawn_promotions b source single_sq
      else
        make_move b nq source single_sq PAWN false false NO_PIECE NO_SQUARE ++
        (let double := if wt then N.shiftr single 8 else w64 (N.shiftl single 8) in
         let double_rank := if wt then RANK_2 else RANK_7 in
         if nz (N.land sm double_rank) && negb (nz (N.land double full))
         then make_move b nq source (ctz64 double) PAWN false false NO_PIECE single_sq
         else []))
    (bits_of pawn_occ).

(* ---------- check detection ---------- *)
Definition square_in_check (color : N) (pas : pstate) (sq full : N) : bool :=
  if nz (N.land (rook_attacks sq full) (N.lor (rooks pas) (queens pas))) then true
  else if nz (N.land (bishop_attacks sq full) (N.lor (bishops pas) (queens pas))) then true
  else if nz (N.land (leaper (knight_tbl T) sq) (knights pas)) then true
  else if nz (N.land (leaper (if color =? WHITE then wpawn_tbl T else bpawn_tbl T) sq) (pawns pas)) then true
  else nz (N.land (leaper (king_tbl T) sq) (kings pas)).

Definition occupancy_in_check (color : N) (pas : pstate) (full king_occ : N) : bool :=
  existsb (fun sq => square_in_check color pas sq full) (bits_of king_occ).

Definition in_check_by_bits (b : board) (color : N) : bool :=
  let act := if color =? WHITE then white b else black b in
  let pas := if color =? WHITE then black b else white b in
  square_in_check color pas (ctz64 (kings act)) (N.lor (full_occ act) (full_occ pas)).

Definition is_valid (b : board) : bool := negb (in_check_by_bits b (opposite (turn b))).
Definition is_current_in_check (b : board) : bool := in_check_by_bits b (turn b).

Definition castle_moves (b : board) (full : N) : list move :=
  if is_white_turn b then
    (if qs (white b) && negb (nz (N.land full (wq_empty T))) && negb (occupancy_in_check WHITE (black b) full (wq_check T))
     then make_move b false E1 C1 KING true false NO_PIECE NO_SQUARE else []) ++
    (if ks (white b) && negb (nz (N.land full (wk_empty T))) && negb (occupancy_in_check WHITE (black b) full (wk_check T))
     then make_move b false E1 G1 KING true false NO_PIECE NO_SQUARE else [])
  else
    (if qs (black b) && negb (nz (N.land full (bq_empty T))) && negb (occupancy_in_check BLACK (white b) full (bq_check T))
     then make_move b false E8 C8 KING true false NO_PIECE NO_SQUARE else []) ++
    (if ks (black b) && negb (nz (N.land full (bk_empty T))) && negb (occupancy_in_check BLACK (white b) full (bk_check T))
     then make_move b false E8 G8 KING true false NO_PIECE NO_SQUARE else []).

(* ---------- generators ---------- *)
Definition gen_common (b : board) (nq : bool) : list move :=
  let act := active b in let pas := passive b in
  let ao := full_occ act in let po := full_occ pas in let fo := N.lor ao po in
  sliding_moves b nq (queens act) ao fo rook_attacks QUEEN ++
  sliding_moves b nq (queens act) ao fo bishop_attacks QUEEN ++
  sliding_moves b nq (bishops act) ao fo bishop_attacks BISHOP ++
  sliding_moves b nq (rooks act) ao fo rook_attacks ROOK ++
  single_moves b nq (knights act) ao (knight_tbl T) KNIGHT ++
  single_moves b nq (kings act) ao (king_tbl T) KING ++
  pawn_attacks b (pawns act) ao po ++
  pawn_moves b nq (pawns act) fo.

Definition gen_pseudo (b : board) : list move :=
  gen_common b false ++ castle_moves b (N.lor (full_occ (active b)) (full_occ (passive b))).
Definition gen_nonquiet (b : board) : list move := gen_common b true.

(* ---------- make / unmake ---------- *)
Definition do_castle (p : pstate) (rook_from king_from rook_to king_to : N) : pstate :=
  let p1 := clr_occ p ROOK (bit rook_from) in
  let p2 := clr_occ p1 KING (bit king_from) in
  let p3 := or_occ p2 ROOK (bit rook_to) in
  or_occ p3 KING (bit king_to).

(* None = the `_ => panic!()` arm *)
Definition castle_squares (target : N) : option (N * N) :=   (* (rook from, rook to) *)
  if target =? C1 then Some (A1, D1) else if target =? G1 then Some (H1, F1)
  else if target =? C8 then Some (A8, D8) else if target =? G8 then Some (H8, F8) else None.

Definition make (b : board) (m : move) : option board :=
  let wt := is_white_turn b in
  let full' := full b + turn b in
  let half' := if half_reset m then 0 else half b + 1 in
  let act0 := active b in let pas0 := passive b in
  let act1 := set_rights act0 (if self_lost_qs m then false else qs act0) (if self_lost_ks m then false else ks act0) in
  let pas1 := set_rights pas0 (if opp_lost_qs m then false else qs pas0) (if opp_lost_ks m then false else ks pas0) in
  let sm := bit (src m) in let tm := bit (dst m) in
  let res :=
    if castle m then
      match castle_squares (dst m) with
      | Some (rf, rt) => Some (do_castle act1 rf (src m) rt (dst m), pas1)
      | None => None
      end
    else if ep_attack m then
      let a := or_occ (clr_occ act1 PAWN sm) PAWN tm in
      let victim := if wt then w64 (N.shiftl tm 8) else N.shiftr tm 8 in
      Some (a, clr_occ pas1 PAWN victim)
    else if negb (promo m =? NO_PIECE) then
      let a := or_occ (clr_occ act1 PAWN sm) (promo m) tm in
      Some (a, clr_occ pas1 (piece_attacked m) tm)
    else
      let a := or_occ (clr_occ act1 (piece_moved m) sm) (piece_moved m) tm in
      Some (a, clr_occ pas1 (piece_attacked m) tm) in
  match res with
  | None => None
  | Some (a, p) =>
      Some (if wt
            then {| white := a; black := p; turn := opposite (turn b); ep := next_ep m; full := full'; half := half' |}
            else {| white := p; black := a; turn := opposite (turn b); ep := next_ep m; full := full'; half := half' |})
  end.

(* u32 overflow of the clocks (`+=` panics in the debug/test profile) *)
Definition make_overflows (b : board) (m : move) : bool :=
  (4294967296 <=? full b + turn b) || (negb (half_reset m) && (4294967296 <=? half b + 1)).

Definition unmake (b : board) (m : move) : option board :=
  (* `b` is the position after the move; the mover is the side NOT to move in b *)
  let mover_white := negb (is_white_turn b) in           (* after `turn = opposite_turn()` *)
  let full' := full b - (1 - turn b) in
  let act0 := if mover_white then white b else black b in
  let pas0 := if mover_white then black b else white b in
  let act1 := set_rights act0 (if self_lost_qs m then true else qs act0) (if self_lost_ks m then true else ks act0) in
  let pas1 := set_rights pas0 (if opp_lost_qs m then true else qs pas0) (if opp_lost_ks m then true else ks pas0) in
  let sm := bit (src m) in let tm := bit (dst m) in
  let res :=
    if castle m then
      match castle_squares (dst m) with
      | Some (rf, rt) => Some (do_castle act1 rt (dst m) rf (src m), pas1)
      | None => None
      end
    else if ep_attack m then
      let a := or_occ (clr_occ act1 PAWN tm) PAWN sm in
      (* `is_white_turn` is read BEFORE the turn is flipped back: it is the opponent's turn *)
      let victim := if is_white_turn b then N.shiftr tm 8 else w64 (N.shiftl tm 8) in
      Some (a, or_occ pas1 (piece_attacked m) victim)
    else if negb (promo m =? NO_PIECE) then
      let p := or_occ pas1 (piece_attacked m) tm in
      let a := clr_occ (or_occ act1 PAWN sm) (promo m) tm in
      Some (a, p)
    else
      let p := or_occ pas1 (piece_attacked m) tm in
      let a := clr_occ (or_occ act1 (piece_moved m) sm) (piece_moved m) tm in
      Some (a, p) in
  match res with
  | None => None
  | Some (a, p) =>
      Some (if mover_white
            then {| white := a; black := p; turn := opposite (turn b); ep := prev_ep m; full := full'; half := prev_half m |}
            else {| white := p; black := a; turn := opposite (turn b); ep := prev_ep m; full := full'; half := prev_half m |})
  end.

(* is_move_legal: make, is_valid, unmake *)
Definition is_move_legal (b : board) (m : move) : bool :=
  match make b m with Some b' => is_valid b' | None => false end.
Definition gen_legal (b : board) : list move := filter (is_move_legal b) (gen_pseudo b).
Definition is_any_move_legal (b : board) (ms : list move) : bool := existsb (is_move_legal b) ms.
Definition is_attack (m : move) : bool := negb (piece_attacked m =? NO_PIECE).
Definition is_promotion (m : move) : bool := negb (promo m =? NO_PIECE).
Definition is_any_move_non_quiescent (ms : list move) : bool := existsb (fun m => is_attack m || is_promotion m) ms.

(* ---------- Zobrist ---------- *)
Definition ps_hash (piece sq color : N) : N := nthN (nthN (zob_ps T) (piece + 7 * color) []) sq 0.
Definition ep_hash (sq : N) : N := nthN (zob_ep T) (sq mod 8) 0.
Definition castle_hash (side color : N) : N :=
  if color =? WHITE then (if side =? QUEEN then zob_wq T else zob_wk T)
  else (if side =? QUEEN then zob_bq T else zob_bk T).

Definition hash_for_occ (occ piece color : N) : N :=
  fold_left (fun acc sq => N.lxor acc (ps_hash piece sq color)) (bits_of occ) 0.

Definition pawn_hash (b : board) : N :=
  let h := N.lxor (hash_for_occ (pawns (white b)) PAWN WHITE) (hash_for_occ (pawns (black b)) PAWN BLACK) in
  let h := N.lxor h (zob_side T * (1 - turn b)) in
  if negb (ep b =? NO_SQUARE) then N.lxor h (ep_hash (ep b)) else h.

Definition zobrist_hash (b : board) : N :=
  let w := white b in let k := black b in
  let h :=
    N.lxor (N.lxor (N.lxor (N.lxor (N.lxor (N.lxor (N.lxor (N.lxor (N.lxor
      (hash_for_occ (kings w) KING WHITE)
      (hash_for_occ (queens w) QUEEN WHITE))
      (hash_for_occ (rooks w) ROOK WHITE))
      (hash_for_occ (bishops w) BISHOP WHITE))
      (hash_for_occ (knights w) KNIGHT WHITE))
      (hash_for_occ (kings k) KING BLACK))
      (hash_for_occ (queens k) QUEEN BLACK))
      (hash_for_occ (rooks k) ROOK BLACK))
      (hash_for_occ (bishops k) BISHOP BLACK))
      (hash_for_occ (knights k) KNIGHT BLACK) in
  let h := if qs w then N.lxor h (zob_wq T) else h in
  let h := if ks w then N.lxor h (zob_wk T) else h in
  let h := if qs k then N.lxor h (zob_bq T) else h in
  let h := if ks k then N.lxor h (zob_bk T) else h in
  N.lxor h (pawn_hash b).

Definition xif (c : bool) (h x : N) : N := if c then N.lxor h x else h.

(* Bitboard::zobrist_xor: (full delta, pawn delta); None = the panic arm of the castle match *)
Definition zobrist_xor (m : move) : option (N * N) :=
  let self := side m in let opp := opposite self in
  let pr := zob_side T in
  let r := 0 in
  let r := xif (self_lost_ks m) r (castle_hash KING self) in
  let r := xif (self_lost_qs m) r (castle_hash QUEEN self) in
  let r := xif (opp_lost_ks m) r (castle_hash KING opp) in
  let r := xif (opp_lost_qs m) r (castle_hash QUEEN opp) in
  let pr := xif (negb (prev_ep m =? NO_SQUARE)) pr (ep_hash (prev_ep m)) in
  let pr := xif (negb (next_ep m =? NO_SQUARE)) pr (ep_hash (next_ep m)) in
  let wt := self =? WHITE in
  let res :=
    if castle m then
      match castle_squares (dst m) with
      | Some (rf, rt) =>
          let ksrc := if (dst m =? C1) || (dst m =? G1) then E1 else E8 in
          let r := N.lxor r (ps_hash ROOK rf self) in
          let r := N.lxor r (ps_hash ROOK rt self) in
          let r := N.lxor r (ps_hash KING ksrc self) in
          let r := N.lxor r (ps_hash KING (dst m) self) in
          Some (r, pr)
      | None => None
      end
    else if ep_attack m then
      let pr := N.lxor pr (ps_hash PAWN (src m) self) in
      let pr := N.lxor pr (ps_hash PAWN (dst m) self) in
      let victim := if wt then dst m + 8 else dst m - 8 in
      Some (r, N.lxor pr (ps_hash PAWN victim opp))
    else
      let '(r, pr) :=
        if is_promotion m then (N.lxor r (ps_hash (promo m) (dst m) self), N.lxor pr (ps_hash PAWN (src m) self))
        else if piece_moved m =? PAWN then (r, N.lxor (N.lxor pr (ps_hash PAWN (src m) self)) (ps_hash PAWN (dst m) self))
        else (N.lxor (N.lxor r (ps_hash (piece_moved m) (src m) self)) (ps_hash (piece_moved m) (dst m) self), pr) in
      if piece_attacked m =? PAWN then Some (r, N.lxor pr (ps_hash PAWN (dst m) opp))
      else Some (N.lxor r (ps_hash (piece_attacked m) (dst m) opp), pr) in
  match res with Some (r, pr) => Some (N.lxor r pr, pr) | None => None end.

(* ---------- helpers ---------- *)
(* ply_clock: (2*(fullmove-1)+turn) as u16; None = u32 underflow/overflow panic (debug profile) *)
Definition ply_clock (b : board) : option N :=
  if full b =? 0 then None
  else let v := 2 * (full b - 1) + turn b in
       if 4294967296 <=? v then None else Some (v mod 65536).

(* perft as the Rust does it: pseudo-legal, make, is_valid *)
Fixpoint perft (d : nat) (b : board) : N :=
  match d with
  | O => 1
  | S k => fold_left (fun acc m => match make b m with
                                   | Some b' => if is_valid b' then acc + perft k b' else acc
                                   | None => acc end) (gen_pseudo b) 0
  end.

End WithTables.

(* well-formedness of a board (boolean, executable) *)
Definition bbs (b : board) : list N :=
  [pawns (white b); knights (white b); bishops (white b); rooks (white b); queens (white b); kings (white b);
   pawns (black b); knights (black b); bishops (black b); rooks (black b); queens (black b); kings (black b)].
Fixpoint disjoint_all (acc : N) (l : list N) : bool :=
  match l with [] => true | x :: r => (N.land acc x =? 0) && disjoint_all (N.lor acc x) r end.
Definition RANKS_18 : N := 18374686479671623935.  (* 0xFF000000000000FF *)
Definition wf (b : board) : bool :=
  forallb (fun x => x <? 18446744073709551616) (bbs b) && disjoint_all 0 (bbs b)
  && (popcount (kings (white b)) =? 1) && (popcount (kings (black b)) =? 1)
  && (turn b <? 2) && (ep b <? 64)
  && (N.land (N.lor (pawns (white b)) (pawns (black b))) RANKS_18 =? 0).

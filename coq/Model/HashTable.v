(* Model of engine_core/src/engine/table.rs : HashTable<K,V>.
   std::collections::HashMap is modelled as an association list without
   duplicate keys (find / remove / insert), VecDeque as a list (front = head).
   `put` returns None where the Rust would panic (`pop_front().unwrap()` on an
   empty queue). *)
Require Import NArith List Bool Arith.
Import ListNotations.
Require Import Ink.Spec.FifoMap.

Section HT.
Variable V : Type.

Fixpoint find (k : K) (m : list (K * V)) : option V :=
  match m with [] => None | (k', v) :: r => if N.eqb k k' then Some v else find k r end.
Fixpoint remove (k : K) (m : list (K * V)) : list (K * V) :=
  match m with [] => [] | (k', v) :: r => if N.eqb k k' then remove k r else (k', v) :: remove k r end.
(* HashMap::insert: returns the map; `was_new` is computed by the caller from find *)
Definition insert (k : K) (v : V) (m : list (K * V)) := (k, v) :: remove k m.

Record ht := { cap : nat; q : list K; m : list (K * V) }.

Definition new (c : nat) : ht := {| cap := c; q := []; m := [] |}.
Definition clear (t : ht) : ht := {| cap := cap t; q := []; m := [] |}.
Definition get (t : ht) (k : K) : option V := find k (m t).
Definition len (t : ht) : nat := length (m t).

Definition put (t : ht) (k : K) (v : V) : option ht :=
  let was_new := match find k (m t) with None => true | Some _ => false end in
  let m1 := insert k v (m t) in
  let q1 := if was_new then q t ++ [k] else q t in
  if Nat.ltb (cap t) (length m1) then
    match q1 with
    | h :: tl => Some {| cap := cap t; q := tl; m := remove h m1 |}
    | [] => None                                   (* unwrap() on None: panic *)
    end
  else Some {| cap := cap t; q := q1; m := m1 |}.

Definition step (t : ht) (o : op V) : option (ht * out V) :=
  match o with
  | Put k v => match put t k v with Some t' => Some (t', OUnit) | None => None end
  | Get k => Some (t, OGet (get t k))
  | Clear => Some (clear t, OUnit)
  | Len => Some (t, OLen (len t))
  end.

Fixpoint run (t : ht) (ops : list (op V)) : option (ht * list (out V)) :=
  match ops with
  | [] => Some (t, [])
  | o :: r =>
      match step t o with
      | None => None
      | Some (t1, x) => match run t1 r with None => None | Some (t2, xs) => Some (t2, x :: xs) end
      end
  end.

End HT.

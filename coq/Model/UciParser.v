(* Model of uci/src/uci/parser.rs (CommandParser), uci/src/uci.rs (UciMove FromStr / Display, Go, UciCommand),
   core/src/constants/square.rs (Square::from_chars / from_indices / from_index) and
   core/src/constants/piece.rs (Piece::from_char).

   The token queue (`RefCell<VecDeque<&str>>`) is a `list str`; every helper takes the queue and returns the rest of
   it together with its result, in the order in which the Rust code pops tokens.  There is no `Panic` outcome:
   none of the modelled primitives can panic (`checked_sub`, `to_digit`, `wrapping_sub`, `str::parse`,
   `max(d, 0) as u64`, `Duration::from_millis`, `VecDeque::pop_front/front`, `HashSet::contains/insert`, string
   pushes); the correspondence family runs the real parser under `catch_unwind` (debug and release) and prints
   `PANIC`, an observation the model can never produce. *)
Require Import Ink.Lib.Str.
Require Import NArith ZArith List Bool.
Require Import Ink.Model.Fen.
Import ListNotations.
Open Scope N_scope.

(* ---------- UciMove ---------- *)
Record uci_move := { um_src : N; um_dst : N; um_promo : option N (* piece index 1..6: p n b r q k *) }.

(* Square::from_index : 0..63 => Some, _ => None *)
Definition square_from_index (i : N) : option N := if i <? 64 then Some i else None.
(* Square::from_indices *)
Definition square_from_indices (file rank : N) : option N :=
  if (file <? 8) && (rank <? 8) then square_from_index (file + rank * 8) else None.
(* Square::from_chars:  (file as usize).checked_sub('a')?;  rank.to_digit(10)?;  8_u32.wrapping_sub(i) as usize *)
Definition square_from_chars (file rank : N) : option N :=
  if file <? 97 then None
  else
    let f := file - 97 in
    if is_ascii_digit rank then
      let i := digit_val rank in
      let r := (8 + 4294967296 - i) mod 4294967296 in
      square_from_indices f r
    else None.

(* Piece::from_char *)
Definition piece_from_char (c : N) : option N :=
  if (c =? 75) || (c =? 107) then Some 6          (* K k *)
  else if (c =? 81) || (c =? 113) then Some 5     (* Q q *)
  else if (c =? 82) || (c =? 114) then Some 4     (* R r *)
  else if (c =? 66) || (c =? 98) then Some 3      (* B b *)
  else if (c =? 78) || (c =? 110) then Some 2     (* N n *)
  else if (c =? 80) || (c =? 112) then Some 1     (* P p *)
  else None.

(* UciMove::from_str: four chars, two squares, optional promotion letter, then nothing *)
Definition parse_move (s : str) : option uci_move :=
  match s with
  | f1 :: r1 :: f2 :: r2 :: rest =>
      match square_from_chars f1 r1 with
      | None => None
      | Some src =>
          match square_from_chars f2 r2 with
          | None => None
          | Some dst =>
              match rest with
              | [] => Some {| um_src := src; um_dst := dst; um_promo := None |}
              | c :: rest' =>
                  match piece_from_char c with
                  | None => None
                  | Some p =>
                      match rest' with
                      | [] => Some {| um_src := src; um_dst := dst; um_promo := Some p |}
                      | _ :: _ => None
                      end
                  end
              end
          end
      end
  | _ => None
  end.

(* Square.fen / Piece.fen / Display for UciMove *)
Definition square_fen (sq : N) : str := [97 + sq mod 8; 48 + (8 - sq / 8)].
Definition piece_fen (p : N) : N :=
  if p =? 1 then 112 else if p =? 2 then 110 else if p =? 3 then 98 else if p =? 4 then 114 else if p =? 5 then 113 else 107.
Definition show_move (m : uci_move) : str :=
  square_fen (um_src m) ++ square_fen (um_dst m) ++ match um_promo m with Some p => [piece_fen p] | None => [] end.

(* ---------- Go / UciCommand / ParserError ---------- *)
Record go := { search_moves : list uci_move; ponder : bool;
               wtime : option N; btime : option N; winc : option N; binc : option N;      (* Duration, in ms *)
               moves_to_go : option N; depth : option N; nodes : option N; mate : option N;
               movetime : option N; infinite : bool }.

Definition GO_EMPTY : go :=
  {| search_moves := []; ponder := false; wtime := None; btime := None; winc := None; binc := None;
     moves_to_go := None; depth := None; nodes := None; mate := None; movetime := None; infinite := false |}.

Inductive command :=
| Uci | SetDebug (b : bool) | IsReady | SetOption (name : str) | SetOptionValue (name value : str)
| RegisterLater | Register (name code : str) | UciNewGame
| PositionFrom (fen_text : str) (moves : list uci_move)     (* Fen is identified by its `fen` string *)
| Go (g : go) | Stop | PonderHit | Quit.

Inductive parser_error :=
| UnknownCommand (s : str) | UnexpectedEndOfCommand | UnexpectedToken (actual : str)
| InvalidFen | InvalidInt | DuplicatedToken (s : str) | InvalidUciMove (s : str).

Definition queue := list str.

(* ---------- queue primitives ---------- *)
Definition next (q : queue) : parser_error + (str * queue) :=
  match q with [] => inl UnexpectedEndOfCommand | t :: r => inr (t, r) end.
Definition peek (q : queue) : parser_error + str :=
  match q with [] => inl UnexpectedEndOfCommand | t :: _ => inr t end.
(* consume pops the token also when it is not the expected one *)
Definition consume (token : str) (q : queue) : (parser_error + unit) * queue :=
  match next q with
  | inl e => (inl e, q)
  | inr (actual, r) => if str_eqb token actual then (inr tt, r) else (inl (UnexpectedToken actual), r)
  end.

(* the `while peek is not a stop token` loop of until_one_of_or_end *)
Fixpoint until_loop (stops : list str) (result : str) (q : queue) : str * queue :=
  match q with
  | [] => (result, [])
  | t :: r => if mem_str t stops then (result, q) else until_loop stops (result ++ [32] ++ t) r
  end.
Definition until_one_of_or_end (stops : list str) (q : queue) : parser_error + (str * queue) :=
  match next q with
  | inl e => inl e
  | inr (t, r) => inr (until_loop stops t r)
  end.
Definition until_token_or_end (token : str) := until_one_of_or_end [token].
Definition until_end := until_one_of_or_end [].

Definition GO_TOKENS : list str :=
  map lit ["searchmoves"; "ponder"; "wtime"; "btime"; "winc"; "binc"; "movestogo"; "depth"; "nodes"; "mate";
           "movetime"; "infinite"]%string.

(* parse_moves_until_one_of_or_end: the moves in order; the first ill-formed move text is the error *)
Fixpoint parse_moves_until (stops : list str) (q : queue) : parser_error + (list uci_move * queue) :=
  match q with
  | [] => inr ([], [])
  | t :: r =>
      if mem_str t stops then inr ([], q)
      else match parse_move t with
           | None => inl (InvalidUciMove t)
           | Some m =>
               match parse_moves_until stops r with
               | inl e => inl e
               | inr (ms, q') => inr (m :: ms, q')
               end
           end
  end.

(* next()?.parse::<i64>().map_err(InvalidInt).map(|d| max(d, 0) as u64).map(Duration::from_millis) *)
Definition parse_duration (q : queue) : parser_error + (N * queue) :=
  match next q with
  | inl e => inl e
  | inr (t, r) => match parse_i64 t with None => inl InvalidInt | Some d => inr (Z.to_N (Z.max d 0), r) end
  end.
Definition parse_u64_tok (q : queue) : parser_error + (N * queue) :=
  match next q with
  | inl e => inl e
  | inr (t, r) => match parse_u64 t with None => inl InvalidInt | Some n => inr (n, r) end
  end.

Definition set_search_moves g v := {| search_moves := v; ponder := ponder g; wtime := wtime g; btime := btime g; winc := winc g; binc := binc g; moves_to_go := moves_to_go g; depth := depth g; nodes := nodes g; mate := mate g; movetime := movetime g; infinite := infinite g |}.
Definition set_ponder g v := {| search_moves := search_moves g; ponder := v; wtime := wtime g; btime := btime g; winc := winc g; binc := binc g; moves_to_go := moves_to_go g; depth := depth g; nodes := nodes g; mate := mate g; movetime := movetime g; infinite := infinite g |}.
Definition set_wtime g v := {| search_moves := search_moves g; ponder := ponder g; wtime := v; btime := btime g; winc := winc g; binc := binc g; moves_to_go := moves_to_go g; depth := depth g; nodes := nodes g; mate := mate g; movetime := movetime g; infinite := infinite g |}.
Definition set_btime g v := {| search_moves := search_moves g; ponder := ponder g; wtime := wtime g; btime := v; winc := winc g; binc := binc g; moves_to_go := moves_to_go g; depth := depth g; nodes := nodes g; mate := mate g; movetime := movetime g; infinite := infinite g |}.
Definition set_winc g v := {| search_moves := search_moves g; ponder := ponder g; wtime := wtime g; btime := btime g; winc := v; binc := binc g; moves_to_go := moves_to_go g; depth := depth g; nodes := nodes g; mate := mate g; movetime := movetime g; infinite := infinite g |}.
Definition set_binc g v := {| search_moves := search_moves g; ponder := ponder g; wtime := wtime g; btime := btime g; winc := winc g; binc := v; moves_to_go := moves_to_go g; depth := depth g; nodes := nodes g; mate := mate g; movetime := movetime g; infinite := infinite g |}.
Definition set_moves_to_go g v := {| search_moves := search_moves g; ponder := ponder g; wtime := wtime g; btime := btime g; winc := winc g; binc := binc g; moves_to_go := v; depth := depth g; nodes := nodes g; mate := mate g; movetime := movetime g; infinite := infinite g |}.
Definition set_depth g v := {| search_moves := search_moves g; ponder := ponder g; wtime := wtime g; btime := btime g; winc := winc g; binc := binc g; moves_to_go := moves_to_go g; depth := v; nodes := nodes g; mate := mate g; movetime := movetime g; infinite := infinite g |}.
Definition set_nodes g v := {| search_moves := search_moves g; ponder := ponder g; wtime := wtime g; btime := btime g; winc := winc g; binc := binc g; moves_to_go := moves_to_go g; depth := depth g; nodes := v; mate := mate g; movetime := movetime g; infinite := infinite g |}.
Definition set_mate g v := {| search_moves := search_moves g; ponder := ponder g; wtime := wtime g; btime := btime g; winc := winc g; binc := binc g; moves_to_go := moves_to_go g; depth := depth g; nodes := nodes g; mate := v; movetime := movetime g; infinite := infinite g |}.
Definition set_movetime g v := {| search_moves := search_moves g; ponder := ponder g; wtime := wtime g; btime := btime g; winc := winc g; binc := binc g; moves_to_go := moves_to_go g; depth := depth g; nodes := nodes g; mate := mate g; movetime := v; infinite := infinite g |}.
Definition set_infinite g v := {| search_moves := search_moves g; ponder := ponder g; wtime := wtime g; btime := btime g; winc := winc g; binc := binc g; moves_to_go := moves_to_go g; depth := depth g; nodes := nodes g; mate := mate g; movetime := movetime g; infinite := v |}.

(* the inner `match token { ... }` of parse_go: the updated Go and the rest of the queue, or the error returned *)
Definition go_step (g : go) (token : str) (q : queue) : parser_error + (go * queue) :=
  let dur (set : go -> option N -> go) :=
    match parse_duration q with inl e => inl e | inr (d, q') => inr (set g (Some d), q') end in
  let num (set : go -> option N -> go) :=
    match parse_u64_tok q with inl e => inl e | inr (n, q') => inr (set g (Some n), q') end in
  if str_eqb token (lit "searchmoves") then
    match parse_moves_until GO_TOKENS q with inl e => inl e | inr (ms, q') => inr (set_search_moves g ms, q') end
  else if str_eqb token (lit "ponder") then inr (set_ponder g true, q)
  else if str_eqb token (lit "wtime") then dur set_wtime
  else if str_eqb token (lit "btime") then dur set_btime
  else if str_eqb token (lit "winc") then dur set_winc
  else if str_eqb token (lit "binc") then dur set_binc
  else if str_eqb token (lit "movestogo") then num set_moves_to_go
  else if str_eqb token (lit "depth") then num set_depth
  else if str_eqb token (lit "nodes") then num set_nodes
  else if str_eqb token (lit "mate") then num set_mate
  else if str_eqb token (lit "movetime") then dur set_movetime
  else if str_eqb token (lit "infinite") then inr (set_infinite g true, q)
  else inl (UnexpectedToken token).

(* the `loop` of parse_go.  Every iteration pops at least one token, so fuel > length of the queue is enough
   (Proofs.UciProofs.go_loop_enough); `None` = out of fuel, never reached from parse_go. *)
Fixpoint go_loop (fuel : nat) (g : go) (visited : list str) (q : queue) : option (parser_error + command) :=
  match fuel with
  | O => None
  | S fuel' =>
      match next q with
      | inl _ => Some (inr (Go g))                                        (* Err(UnexpectedEndOfCommand) => break *)
      | inr (token, q1) =>
          if mem_str token visited then Some (inl (DuplicatedToken token))
          else match go_step g token q1 with
               | inl e => Some (inl e)
               | inr (g', q') => go_loop fuel' g' (token :: visited) q'   (* visited_tokens.insert(token) *)
               end
      end
  end.

Definition parse_go (q : queue) : parser_error + command :=
  match go_loop (S (length q)) GO_EMPTY [] q with
  | Some r => r
  | None => inl UnexpectedEndOfCommand      (* unreachable: go_loop_enough *)
  end.

Definition parse_position (q : queue) : parser_error + command :=
  match next q with
  | inl e => inl e
  | inr (t, q1) =>
      let fen : parser_error + (str * queue) :=
        if str_eqb t (lit "fen") then
          match until_token_or_end (lit "moves") q1 with
          | inl e => inl e
          | inr (text, q2) =>
              match fen_from_str text with
              | inl _ => inl InvalidFen
              | inr f => inr (f_text f, q2)
              end
          end
        else if str_eqb t (lit "startpos") then inr (STARTPOS, q1)         (* Fen::default() *)
        else inl (UnexpectedToken t) in
      match fen with
      | inl e => inl e
      | inr (ftext, q2) =>
          match consume (lit "moves") q2 with
          | (inr _, q3) =>
              match parse_moves_until [] q3 with
              | inl e => inl e
              | inr (ms, _) => inr (PositionFrom ftext ms)
              end
          | (inl UnexpectedEndOfCommand, _) => inr (PositionFrom ftext [])
          | (inl e, _) => inl e
          end
      end
  end.

Definition parse_register (q : queue) : parser_error + command :=
  match peek q with
  | inl e => inl e
  | inr t =>
      if str_eqb t (lit "later") then inr RegisterLater
      else
        match consume (lit "name") q with
        | (inl e, _) => inl e
        | (inr _, q1) =>
            match until_token_or_end (lit "code") q1 with
            | inl e => inl e
            | inr (name, q2) =>
                match consume (lit "code") q2 with
                | (inl e, _) => inl e
                | (inr _, q3) =>
                    match until_end q3 with
                    | inl e => inl e
                    | inr (code, _) => inr (Register name code)
                    end
                end
            end
        end
  end.

Definition parse_setoption (q : queue) : parser_error + command :=
  match consume (lit "name") q with
  | (inl e, _) => inl e
  | (inr _, q1) =>
      match until_token_or_end (lit "value") q1 with
      | inl e => inl e
      | inr (name, q2) =>
          let '(value_exists, q3) := consume (lit "value") q2 in
          let value := until_end q3 in
          match value_exists, value with
          | inr _, inr (v, _) => inr (SetOptionValue name v)
          | inl UnexpectedEndOfCommand, _ => inr (SetOption name)
          | inr _, inl e => inl e
          | inl e, _ => inl e
          end
      end
  end.

Definition parse_debug (q : queue) : parser_error + command :=
  match next q with
  | inl e => inl e
  | inr (t, _) =>
      if str_eqb t (lit "on") then inr (SetDebug true)
      else if str_eqb t (lit "off") then inr (SetDebug false)
      else inl (UnexpectedToken t)
  end.

Definition parse_root (root : str) (q : queue) : parser_error + command :=
  if str_eqb root (lit "uci") then inr Uci
  else if str_eqb root (lit "isready") then inr IsReady
  else if str_eqb root (lit "ucinewgame") then inr UciNewGame
  else if str_eqb root (lit "stop") then inr Stop
  else if str_eqb root (lit "ponderhit") then inr PonderHit
  else if str_eqb root (lit "quit") then inr Quit
  else if str_eqb root (lit "go") then parse_go q
  else if str_eqb root (lit "position") then parse_position q
  else if str_eqb root (lit "register") then parse_register q
  else if str_eqb root (lit "setoption") then parse_setoption q
  else if str_eqb root (lit "debug") then parse_debug q
  else inl (UnknownCommand root).

(* CommandParser::new(command).parse() *)
Definition tokenize (s : str) : queue := words (trim s).
Definition parse_command (s : str) : parser_error + command :=
  match next (tokenize s) with
  | inl e => inl e
  | inr (root, q) => parse_root root q
  end.

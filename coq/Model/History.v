(* Model of engine_core/src/engine/zobrist_history.rs : ZobristHistory { history: [u64; 5000] }.

   The array is an update list over the default 0 (`Default` fills the array with 0): the newest write
   to an index shadows older ones.  `None` = the Rust panics (array index out of bounds).

   Integer widths.  `start_index`, `halfmove_clock` : u16 (callers cast, see [count_repetitions_u32]).
   The loop variable is i32: `start_index as i32 - 4` and `start_index as i32 - halfmove_clock as i32` are
   differences of two values below 2^16, and `current_index -= 2` never goes below -2, so no i32 operation
   can wrap; the model uses unbounded Z.  `repetitions` : usize, stays in 1..3.

   NO proofs here (see Proofs/HistoryProofs.v). *)
Require Import NArith ZArith List Bool.
Import ListNotations.
Open Scope N_scope.

Definition HLEN : N := 5000.

Definition hist := list (N * N).            (* (index, hash), newest write first *)
Definition hempty : hist := [].             (* ZobristHistory::default() : all 0 *)

Fixpoint hget (h : hist) (i : N) : N :=
  match h with
  | [] => 0
  | (j, v) :: r => if N.eqb i j then v else hget r i
  end.

(* self.history[i] as an rvalue: bounds-checked *)
Definition hread (h : hist) (i : N) : option N :=
  if i <? HLEN then Some (hget h i) else None.

(* pub fn set(&mut self, index: u16, zobrist_hash) { self.history[index as usize] = zobrist_hash; } *)
Definition hset (h : hist) (index hash : N) : option hist :=
  if index <? HLEN then Some ((index, hash) :: h) else None.

(* while current_index >= min_index { ... current_index -= 2; }   followed by `repetitions`.
   Out of fuel is reported as None as well; [count_loop_fuel] (Proofs) shows that the fuel handed over by
   [count_repetitions] is never exhausted. *)
Fixpoint count_loop (fuel : nat) (h : hist) (zobrist : N) (min_index current_index : Z) (repetitions : N)
  : option N :=
  match fuel with
  | O => None
  | S k =>
      if (min_index <=? current_index)%Z then
        match hread h (Z.to_N current_index) with        (* self.history[current_index as usize] *)
        | None => None
        | Some current_zobrist =>
            if N.eqb current_zobrist zobrist then
              let repetitions' := repetitions + 1 in
              if 3 <=? repetitions' then Some 3
              else count_loop k h zobrist min_index (current_index - 2)%Z repetitions'
            else count_loop k h zobrist min_index (current_index - 2)%Z repetitions
        end
      else Some repetitions
  end.

(* pub fn count_repetitions(&self, start_index: u16, halfmove_clock: u16) -> usize *)
Definition count_repetitions (h : hist) (start_index halfmove_clock : N) : option N :=
  if start_index <? 4 then Some 0
  else
    let current_index := (Z.of_N start_index - 4)%Z in
    match hread h start_index with                       (* let zobrist = self.history[start_index as usize]; *)
    | None => None
    | Some zobrist =>
        let min_index := Z.max 0 (Z.of_N start_index - Z.of_N halfmove_clock) in
        count_loop (N.to_nat (start_index / 2 + 1)) h zobrist min_index current_index 1
    end.

(* search.rs: count_repetitions(ply_clock, halfmove_clock as u16) with halfmove_clock : u32 *)
Definition count_repetitions_u32 (h : hist) (start_index halfmove_clock : N) : option N :=
  count_repetitions h start_index (halfmove_clock mod 65536).

(* search_negamax: zobrist_history.set(ply_clock, hash); then `count_repetitions(..) >= 3` selects the draw leaf.
   Result: the updated history and the draw flag. *)
Definition visit (h : hist) (ply_clock hash halfmove_clock : N) : option (hist * bool) :=
  match hset h ply_clock hash with
  | None => None
  | Some h' =>
      match count_repetitions_u32 h' ply_clock halfmove_clock with
      | None => None
      | Some c => Some (h', 3 <=? c)
      end
  end.

(* set_position_from: the positions of the game are stored at consecutive ply clocks, oldest first. *)
Fixpoint record_from (h : hist) (base : N) (keys : list N) : option hist :=
  match keys with
  | [] => Some h
  | x :: r => match hset h base x with None => None | Some h' => record_from h' (base + 1) r end
  end.

(* Model of engine_core/src/engine/zobrist_history.rs : ZobristHistory { history: Vec<u64> }  (tree with fix aca2b0d).

   The vector starts as 5000 zeros, `set` pads it with zeros up to the written index, and every read goes
   through `get(i) = history.get(i).copied().unwrap_or(0)`.  So the observable state is a total function from
   indices to hashes that is 0 wherever nothing was written; the length of the vector cannot be observed.  The
   model is the update list of that function (newest write first); nothing panics.
   (Before aca2b0d the field was `[u64; 5000]` and any index >= 5000 was an out-of-bounds panic: defect D16,
   see [historic_D16] in Proofs/HistoryProofs.v.)

   Integer widths.  `start_index`, `halfmove_clock` : u16 (callers cast, see [count_repetitions_u32]).
   The loop variable is i32: `start_index as i32 - 4` and `start_index as i32 - halfmove_clock as i32` are
   differences of two values below 2^16, and `current_index -= 2` never goes below -2, so no i32 operation
   can wrap; the model uses unbounded Z.  `repetitions` : usize, stays in 1..3.

   The second part is the fifty-move branch of `Heuristic::evaluate` (heuristic.rs).

   NO proofs here (see Proofs/HistoryProofs.v). *)
Require Import NArith ZArith List Bool.
Import ListNotations.
Open Scope N_scope.

Definition INITIAL_LEN : N := 5000.         (* vec![0; 5000]; not observable *)

Definition hist := list (N * N).            (* (index, hash), newest write first *)
Definition hempty : hist := [].             (* ZobristHistory::default() : all 0 *)

(* fn get(&self, index: usize) -> ZobristHash { self.history.get(index).copied().unwrap_or(0) } *)
Fixpoint hget (h : hist) (i : N) : N :=
  match h with
  | [] => 0
  | (j, v) :: r => if N.eqb i j then v else hget r i
  end.

(* pub fn set(&mut self, index: u16, zobrist_hash): resize with zeros when needed, then store *)
Definition hset (h : hist) (index hash : N) : hist := (index, hash) :: h.

(* while current_index >= min_index { ... current_index -= 2; }   followed by `repetitions`.
   None = out of fuel (a termination device of the model, not a behaviour of the code); [count_loop_total]
   (Proofs) shows that the fuel handed over by [count_repetitions_fuel] is never exhausted. *)
Fixpoint count_loop (fuel : nat) (h : hist) (zobrist : N) (min_index current_index : Z) (repetitions : N)
  : option N :=
  match fuel with
  | O => None
  | S k =>
      if (min_index <=? current_index)%Z then
        let current_zobrist := hget h (Z.to_N current_index) in      (* self.get(current_index as usize) *)
        if N.eqb current_zobrist zobrist then
          let repetitions' := repetitions + 1 in
          if 3 <=? repetitions' then Some 3
          else count_loop k h zobrist min_index (current_index - 2)%Z repetitions'
        else count_loop k h zobrist min_index (current_index - 2)%Z repetitions
      else Some repetitions
  end.

Definition count_repetitions_fuel (h : hist) (start_index halfmove_clock : N) : option N :=
  if start_index <? 4 then Some 0
  else
    let current_index := (Z.of_N start_index - 4)%Z in
    let zobrist := hget h start_index in                             (* self.get(start_index as usize) *)
    let min_index := Z.max 0 (Z.of_N start_index - Z.of_N halfmove_clock) in
    count_loop (N.to_nat (start_index / 2 + 1)) h zobrist min_index current_index 1.

(* pub fn count_repetitions(&self, start_index: u16, halfmove_clock: u16) -> usize
   (the None branch is unreachable: [count_repetitions_fuel_some]) *)
Definition count_repetitions (h : hist) (start_index halfmove_clock : N) : N :=
  match count_repetitions_fuel h start_index halfmove_clock with Some c => c | None => 0 end.

(* search.rs: count_repetitions(ply_clock, halfmove_clock as u16) with halfmove_clock : u32 *)
Definition count_repetitions_u32 (h : hist) (start_index halfmove_clock : N) : N :=
  count_repetitions h start_index (halfmove_clock mod 65536).

(* search_negamax: zobrist_history.set(ply_clock, hash); then
   `ply_depth_from_root > 0 && count_repetitions(ply_clock, halfmove_clock as u16) >= 3` selects the draw leaf.
   Result: the updated history and the draw flag. *)
Definition visit (h : hist) (ply_depth_from_root ply_clock hash halfmove_clock : N) : hist * bool :=
  let h' := hset h ply_clock hash in
  (h', (0 <? ply_depth_from_root) && (3 <=? count_repetitions_u32 h' ply_clock halfmove_clock)).

(* set_position_from: the positions of the game are stored at consecutive ply clocks, oldest first. *)
Fixpoint record_from (h : hist) (base : N) (keys : list N) : hist :=
  match keys with
  | [] => h
  | x :: r => record_from (hset h base x) (base + 1) r
  end.

(* ---- fifty-move rule: Heuristic::evaluate ----
   if legal_moves_remaining { if bitboard.halfmove_clock >= Self::MAX_HALF_MOVES { draw_score } else { ongoing } }
   else { mate / stalemate }.
   [fifty_branch] = "the position is valued as a fifty-move draw". *)
Definition fifty_branch (max_half : N) (half : N) (legal_moves_remaining : bool) : bool :=
  legal_moves_remaining && (max_half <=? half).

(* Model of what serde_derive (1.0.x) + serde_json do for the Lichess payload types of
   /repo/lichess_api/src/api/{bot_game_state_response,bot_event_response,response}.rs.

   A [schema] describes a derived `Deserialize` impl; [decode s j] is the result of deserialising the JSON
   value [j] (as parsed by Model/Json.v) and re-serialising the Rust value with the derived `Serialize`
   (wire names, declaration order, `None` as null, `Vec<String>` as array): the NORMAL FORM.

   Every payload type is reached through an internally tagged enum (`#[serde(tag = "type")]`), so every value
   below the root is deserialised from serde's buffered `Content`.  Rules mirrored (serde/src/private/de.rs,
   serde_derive/src/de.rs):
   * struct from a map: keys are visited in DOCUMENT order; a key naming a (non-flattened) field decodes its
     value at once (first error / panic wins), a second occurrence is "duplicate field"; unknown keys are
     ignored.  After the loop missing fields are filled: `Option` => None, `#[serde(default)]` => Default,
     otherwise "missing field"; then `#[serde(flatten)]` fields are deserialised from the collected
     unknown entries (FlatMapDeserializer).
   * struct from a sequence (serde_derive generates visit_seq unless the struct has a flattened field):
     fields are positional; a missing element is an error unless the field has `default`; surplus elements
     are an error.
   * `Option<T>`: null => None, anything else => T.
   * unit-only enums: a string naming a variant, or a single-key map { variant : null | {} }.
   * internally tagged enums: from a map - exactly one tag entry (a second one is "duplicate field"), its value
     a variant name (below the root also a variant INDEX, because Content::U64 is accepted as identifier),
     remaining entries decoded as the variant's struct; from a sequence - first element the tag, the rest
     the variant's fields positionally.
   * integers: only JSON integer literals, range-checked; a float literal is an error.
   * `deserialize_with` functions that ask for a borrowed `&str` (from_space_sv, from_csv) fail on a JSON
     string that was written with escapes.  from_csv `unwrap`s an unknown rule name: [Panic].
   [SNever] is used by documented shapes only (Spec/LichessApi.v): "this key does not occur".
   NO proofs in this file. *)
Require Import Ink.Lib.Str.
Require Import NArith ZArith List Bool.
Import ListNotations.
Require Import Ink.Model.Json.
Open Scope N_scope.

Inductive res (A : Type) := Ok (a : A) | Err | Panic.
Arguments Ok {A} _.
Arguments Err {A}.
Arguments Panic {A}.

Record field_of (S : Type) := mkField { fwire : str; fsch : S; fdefault : bool; fflatten : bool }.
Arguments mkField {S} _ _ _ _.
Arguments fwire {S} _.
Arguments fsch {S} _.
Arguments fdefault {S} _.
Arguments fflatten {S} _.

Inductive schema :=
| SStr | SU32 | SI32 | SU64 | SBool
| SNever
| SOpt (s : schema)
| SStruct (fs : list (field_of schema))
| SUnitEnum (names : list str)
| STagged (tag : str) (vs : list (str * list (field_of schema)))
| SSpaceSV
| SCsvRules (names : list (str * str)).   (* (literal matched after to_lowercase, serialised variant name) *)

Definition field := field_of schema.

(* ---------- association lists keyed by text ---------- *)
Section Assoc.
Context {A : Type}.
Fixpoint lookup (k : str) (l : list (str * A)) : option A :=
  match l with [] => None | (k', a) :: r => if str_eqb k k' then Some a else lookup k r end.
Fixpoint lookup_all (k : str) (l : list (str * A)) : list A :=
  match l with [] => [] | (k', a) :: r => if str_eqb k k' then a :: lookup_all k r else lookup_all k r end.
Definition has_key (k : str) (l : list (str * A)) : bool :=
  match lookup k l with Some _ => true | None => false end.
Fixpoint remove_key (k : str) (l : list (str * A)) : list (str * A) :=
  match l with [] => [] | (k', a) :: r => if str_eqb k k' then remove_key k r else (k', a) :: remove_key k r end.
End Assoc.

(* ---------- leaves ---------- *)
Definition is_opt (s : schema) : bool := match s with SOpt _ => true | _ => false end.

(* Default::default() of the Rust type, in normal form (only used where `#[serde(default)]` is allowed) *)
Definition default_of (s : schema) : json :=
  match s with
  | SSpaceSV | SCsvRules _ => JArr []
  | SStr => JStr [] false
  | SU32 | SI32 | SU64 => JNum 0
  | SBool => JBool false
  | _ => JNull
  end.

Definition run_int (lo hi : Z) (j : json) : res json :=
  match j with
  | JNum z => if (lo <=? z)%Z && (z <=? hi)%Z then Ok (JNum z) else Err
  | _ => Err
  end.

Definition num_range (s : schema) : option (Z * Z) :=
  match s with
  | SU32 => Some (0, 4294967295)%Z
  | SI32 => Some (-2147483648, 2147483647)%Z
  | SU64 => Some (0, 18446744073709551615)%Z
  | _ => None
  end.

(* from_space_sv: `if s.trim().is_empty() { vec![] } else { s.split(' ') }` *)
Definition space_sv (s : str) : list str :=
  match trim s with [] => [] | _ => split_on 32 s end.

Definition lower (s : str) : str := map to_ascii_lower s.
(* from_csv: `s.split(',').map(|p| Rule::from_str(p).unwrap())`; None = the unwrap panics *)
Fixpoint csv_rules (names : list (str * str)) (parts : list str) : option (list json) :=
  match parts with
  | [] => Some []
  | p :: r =>
    match lookup (lower p) names with
    | Some w => match csv_rules names r with Some l => Some (JStr w false :: l) | None => None end
    | None => None
    end
  end.

Definition run_unit_enum (names : list str) (j : json) : res json :=
  match j with
  | JStr n _ => if mem_str n names then Ok (JStr n false) else Err
  | JObj [(k, v)] =>
    if mem_str k names then
      match v with JNull => Ok (JStr k false) | JObj [] => Ok (JStr k false) | _ => Err end
    else Err
  | _ => Err
  end.

(* ---------- structs ---------- *)
Definition dec := json -> res json.
Record fmeta := mkMeta { mwire : str; mopt : bool; mdefault : option json; mflat : bool }.

Definition meta_of (f : field) : fmeta :=
  {| mwire := fwire f; mopt := is_opt (fsch f);
     mdefault := if fdefault f then Some (default_of (fsch f)) else None;
     mflat := fflatten f |}.

Definition is_named {B : Type} (k : str) (mb : fmeta * B) : bool :=
  negb (mflat (fst mb)) && str_eqb k (mwire (fst mb)).
Definition find_field {B : Type} (k : str) (ds : list (fmeta * B)) : option (fmeta * B) := find (is_named k) ds.
Definition known_key {B : Type} (ds : list (fmeta * B)) (k : str) : bool :=
  match find_field k ds with Some _ => true | None => false end.

(* the visit_map loop: document order, first failure wins *)
Fixpoint run_fields (ds : list (fmeta * dec)) (doc acc : list (str * json)) : res (list (str * json)) :=
  match doc with
  | [] => Ok acc
  | (k, d) :: rest =>
    match find_field k ds with
    | Some (_, f) =>
      if has_key k acc then Err                                   (* duplicate field *)
      else match f d with
           | Ok v => run_fields ds rest (acc ++ [(k, v)])
           | Err => Err
           | Panic => Panic
           end
    | None => run_fields ds rest acc
    end
  end.

(* entries left for the flattened fields *)
Definition collect {B : Type} (ds : list (fmeta * B)) (doc : list (str * json)) : list (str * json) :=
  filter (fun e => negb (known_key ds (fst e))) doc.

Definition absent_value (m : fmeta) : option json := if mopt m then Some JNull else mdefault m.

Definition missing_required (ds : list (fmeta * dec)) (acc : list (str * json)) : bool :=
  existsb (fun mf => negb (mflat (fst mf)) && negb (has_key (mwire (fst mf)) acc)
                     && match absent_value (fst mf) with None => true | Some _ => false end) ds.

Fixpoint finish (ds : list (fmeta * dec)) (acc collected : list (str * json)) : res (list (str * json)) :=
  match ds with
  | [] => Ok []
  | (m, f) :: r =>
    if mflat m then
      match f (JObj collected) with
      | Ok (JObj inner) =>
        match finish r acc collected with Ok rest => Ok (inner ++ rest) | Err => Err | Panic => Panic end
      | Ok _ => Err
      | Err => Err
      | Panic => Panic
      end
    else
      match (match lookup (mwire m) acc with Some v => Some v | None => absent_value m end) with
      | None => Err
      | Some v =>
        match finish r acc collected with Ok rest => Ok ((mwire m, v) :: rest) | Err => Err | Panic => Panic end
      end
  end.

(* the visit_seq path *)
Fixpoint run_seq (ds : list (fmeta * dec)) (el : list json) : res (list (str * json)) :=
  match ds with
  | [] => match el with [] => Ok [] | _ => Err end               (* invalid length: surplus elements *)
  | (m, f) :: r =>
    match el with
    | e :: es =>
      match f e with
      | Ok v => match run_seq r es with Ok rest => Ok ((mwire m, v) :: rest) | Err => Err | Panic => Panic end
      | Err => Err
      | Panic => Panic
      end
    | [] =>
      match mdefault m with
      | Some v => match run_seq r [] with Ok rest => Ok ((mwire m, v) :: rest) | Err => Err | Panic => Panic end
      | None => Err
      end
    end
  end.

Definition has_flatten {B : Type} (ds : list (fmeta * B)) : bool := existsb (fun mf => mflat (fst mf)) ds.

Definition run_struct_fields (ds : list (fmeta * dec)) (j : json) : res (list (str * json)) :=
  match j with
  | JObj doc =>
    match run_fields ds doc [] with
    | Ok acc => if missing_required ds acc then Err else finish ds acc (collect ds doc)
    | Err => Err
    | Panic => Panic
    end
  | JArr el => if has_flatten ds then Err else run_seq ds el
  | _ => Err
  end.

Definition run_struct (ds : list (fmeta * dec)) (j : json) : res json :=
  match run_struct_fields ds j with Ok vs => Ok (JObj vs) | Err => Err | Panic => Panic end.

(* ---------- internally tagged enums ---------- *)
Definition variant_of {B : Type} (top : bool) (vs : list (str * B)) (j : json) : option (str * B) :=
  match j with
  | JStr n _ => match lookup n vs with Some b => Some (n, b) | None => None end
  | JNum z =>
    if top then None
    else if (0 <=? z)%Z && (z <? Z.of_nat (length vs))%Z then nth_error vs (Z.to_nat z) else None
  | _ => None
  end.

Definition run_tagged (top : bool) (tag : str) (vs : list (str * list (fmeta * dec))) (j : json) : res json :=
  match j with
  | JObj doc =>
    match lookup_all tag doc with
    | [t] =>
      match variant_of top vs t with
      | Some (n, ds) =>
        match run_struct_fields ds (JObj (remove_key tag doc)) with
        | Ok fields => Ok (JObj ((tag, JStr n false) :: fields))
        | Err => Err
        | Panic => Panic
        end
      | None => Err
      end
    | _ => Err                                                    (* missing / duplicate tag *)
    end
  | JArr (t :: rest) =>
    match variant_of top vs t with
    | Some (n, ds) =>
      match run_struct_fields ds (JArr rest) with
      | Ok fields => Ok (JObj ((tag, JStr n false) :: fields))
      | Err => Err
      | Panic => Panic
      end
    | None => Err
    end
  | _ => Err
  end.

(* ---------- the decoder ---------- *)
Fixpoint decode_at (top : bool) (s : schema) {struct s} : json -> res json :=
  match s with
  | SStr => fun j => match j with JStr x _ => Ok (JStr x false) | _ => Err end
  | SU32 => run_int 0 4294967295
  | SI32 => run_int (-2147483648) 2147483647
  | SU64 => run_int 0 18446744073709551615
  | SBool => fun j => match j with JBool b => Ok (JBool b) | _ => Err end
  | SNever => fun _ => Err
  | SOpt s' => fun j => match j with JNull => Ok JNull | _ => decode_at false s' j end
  | SStruct fs =>
    run_struct ((fix go (fs : list field) : list (fmeta * dec) :=
                   match fs with [] => [] | f :: r => (meta_of f, decode_at false (fsch f)) :: go r end) fs)
  | SUnitEnum names => run_unit_enum names
  | STagged tag vs =>
    run_tagged top tag
      ((fix gov (vs : list (str * list field)) : list (str * list (fmeta * dec)) :=
          match vs with
          | [] => []
          | (n, fs) :: r =>
            (n, (fix go (fs : list field) : list (fmeta * dec) :=
                   match fs with [] => [] | f :: r => (meta_of f, decode_at false (fsch f)) :: go r end) fs)
            :: gov r
          end) vs)
  | SSpaceSV => fun j =>
    match j with
    | JStr x false => Ok (JArr (map (fun m => JStr m false) (space_sv x)))
    | _ => Err                                                    (* incl. escaped: no borrowed &str *)
    end
  | SCsvRules names => fun j =>
    match j with
    | JStr x false => match csv_rules names (split_on 44 x) with Some l => Ok (JArr l) | None => Panic end
    | _ => Err
    end
  end.

(* the root value is deserialised directly from serde_json *)
Definition decode (s : schema) (j : json) : res json := decode_at true s j.

(* ---------- UCI move text (consumer: lichess_bot/src/bot.rs maps UciMove::from_str over `moves`) ----------
   uci/src/uci.rs  UciMove::from_str  +  core/src/constants/square.rs  Square::from_chars  (tree with the fixes
   fed0946 and 4917da5):  `(file as usize).checked_sub('a')?` - a file character below 'a' is None, no panic;
   the rank must be an ASCII digit 1..8;  an optional fifth character must name a piece (KQRBNP, either case);
   anything after it is an error.  The parser never panics: the result is Ok / Err only. *)
Definition square_from_chars (file rank : N) : option N :=
  if file <? 97 then None
  else
    let f := file - 97 in
    if is_ascii_digit rank then
      let i := rank - 48 in
      if (1 <=? i) && (i <=? 8) && (f <? 8) then Some (f + (8 - i) * 8) else None
    else None.

Definition piece_from_char (c : N) : option N :=
  let l := to_ascii_lower c in
  if mem_chr l (lit "kqrbnp") then Some l else None.

Definition sq_text (i : N) : str := [97 + i mod 8; 48 + (8 - i / 8)].

(* Ok = the Display text of the parsed move *)
Definition uci_move_parse (s : str) : res str :=
  match s with
  | c1 :: c2 :: c3 :: c4 :: r4 =>
    match square_from_chars c1 c2, square_from_chars c3 c4 with
    | Some a, Some b =>
      match r4 with
      | [] => Ok (sq_text a ++ sq_text b)
      | [c5] => match piece_from_char c5 with Some p => Ok (sq_text a ++ sq_text b ++ [p]) | None => Err end
      | _ => Err
      end
    | _, _ => Err
    end
  | _ => Err
  end.

Definition uci_move_ok (s : str) : bool := match uci_move_parse s with Ok _ => true | _ => false end.

(* ---------- documented shape vs implementation schema ---------- *)
Definition lenient (f : field) : bool := is_opt (fsch f) || fdefault f.

(* wire-level field list of a struct: flattened structs are inlined (one level, see schema_wf) *)
Definition expand (fs : list field) : list field :=
  flat_map (fun f => if fflatten f then match fsch f with SStruct inner => inner | _ => [f] end else [f]) fs.

Definition find_wire (w : str) (fs : list field) : option field := find (fun g => str_eqb w (fwire g)) fs.

Fixpoint nodup_str (l : list str) : bool :=
  match l with [] => true | x :: r => negb (mem_str x r) && nodup_str r end.
Definition nonflat_wires (fs : list field) : list str := map fwire (filter (fun f => negb (fflatten f)) fs).
Definition defaultable (s : schema) : bool :=
  match s with SStruct _ | SUnitEnum _ | STagged _ _ => false | _ => true end.
Definition flatten_ok (outer : list str) (f : field) : bool :=
  if fflatten f then
    negb (fdefault f) &&
    match fsch f with
    | SStruct inner => forallb (fun g => negb (fflatten g) && negb (mem_str (fwire g) outer)) inner
    | _ => false
    end
  else true.
Definition fields_shape_ok (fs : list field) : bool :=
  nodup_str (nonflat_wires fs) && nodup_str (map fwire (expand fs)) && forallb (flatten_ok (nonflat_wires fs)) fs
  && forallb (fun f => negb (fdefault f) || defaultable (fsch f)) fs.

(* what serde_derive / rustc would insist on anyway: distinct wire names (also between a flattened struct's
   fields and the surrounding ones), flatten only on plain structs without further flatten,
   `default` only where the model knows Default::default(), tag name not among the variant's fields *)
Fixpoint schema_wf (s : schema) : bool :=
  match s with
  | SOpt s' => schema_wf s'
  | SStruct fs =>
    fields_shape_ok fs &&
    (fix go (fs : list field) : bool := match fs with [] => true | f :: r => schema_wf (fsch f) && go r end) fs
  | STagged tag vs =>
    nodup_str (map fst vs) &&
    (fix gov (vs : list (str * list field)) : bool :=
       match vs with
       | [] => true
       | (n, fs) :: r =>
         fields_shape_ok fs && negb (mem_str tag (map fwire (expand fs))) &&
         (fix go (fs : list field) : bool := match fs with [] => true | f :: r => schema_wf (fsch f) && go r end) fs
         && gov r
       end) vs
  | _ => true
  end.

Definition range_incl (a b : schema) : bool :=
  match num_range a, num_range b with
  | Some (la, ha), Some (lb, hb) => (lb <=? la)%Z && (ha <=? hb)%Z
  | _, _ => false
  end.

Definition is_never (s : schema) : bool := match s with SNever => true | _ => false end.
Definition strip_opt (b : schema) : schema := match b with SOpt b' => b' | _ => b end.

(* documented fields are plain (no flatten; "may be absent without being null" - fdefault - only for SNever
   keys); every impl field is documented (possibly as SNever = "never
   sent"); every field the impl requires is documented as always present *)
Definition impl_fields_ok (fa eb : list field) : bool :=
  forallb (fun f => negb (fflatten f)) fa &&
  forallb (fun g => match find_wire (fwire g) fa with
                    | Some f => lenient g || negb (lenient f)
                    | None => false
                    end) eb.

(* [compat a b]: a = documented shape, b = implementation schema.  Every documented value of shape a is
   decoded by b into a slot that can hold it:  optional (absent / null) only into Option;  enum keys, integer
   ranges included;  every documented field has a field of the same wire name with a compatible schema. *)
Fixpoint compat (a b : schema) {struct a} : bool :=
  match a with
  | SNever => true
  | SOpt a' => match b with SOpt b' => compat a' b' | _ => false end
  | SStr => match strip_opt b with SStr => true | _ => false end
  | SBool => match strip_opt b with SBool => true | _ => false end
  | SU32 | SI32 | SU64 => range_incl a (strip_opt b)
  | SSpaceSV => match strip_opt b with SSpaceSV => true | _ => false end
  | SCsvRules _ => false
  | SUnitEnum na => match strip_opt b with SUnitEnum nb => forallb (fun n => mem_str n nb) na | _ => false end
  | SStruct fa =>
    match strip_opt b with
    | SStruct fb =>
      let eb := expand fb in
      impl_fields_ok fa eb &&
      (fix go (fa : list field) : bool :=
         match fa with
         | [] => true
         | f :: r =>
           match find_wire (fwire f) eb with
           | Some g => compat (fsch f) (fsch g) && (negb (fdefault f) || is_never (fsch f) && lenient g)
           | None => match fsch f with SNever => true | _ => false end
           end && go r
         end) fa
    | _ => false
    end
  | STagged ta va =>
    match strip_opt b with
    | STagged tb vb =>
      str_eqb ta tb &&
      (fix gov (va : list (str * list field)) : bool :=
         match va with
         | [] => true
         | (n, fa) :: r =>
           match lookup n vb with
           | Some fb =>
             let eb := expand fb in
             impl_fields_ok fa eb &&
             (fix go (fa : list field) : bool :=
                match fa with
                | [] => true
                | f :: r =>
                  match find_wire (fwire f) eb with
                  | Some g => compat (fsch f) (fsch g) && (negb (fdefault f) || is_never (fsch f) && lenient g)
                  | None => match fsch f with SNever => true | _ => false end
                  end && go r
                end) fa
           | None => false
           end && gov r
         end) va
    | _ => false
    end
  end.

Definition compatible (api impl : schema) : bool := schema_wf api && schema_wf impl && compat api impl.

(* first offending path (wire names from the root; [] = the root itself), None when compat holds *)
Definition first_bad_impl_field (fa eb : list field) : option (list str) :=
  match find (fun f => fflatten f) fa with
  | Some f => Some [fwire f]
  | None =>
    match find (fun g => negb match find_wire (fwire g) fa with
                              | Some f => lenient g || negb (lenient f)
                              | None => false
                              end) eb with
    | Some g => Some [fwire g]
    | None => None
    end
  end.

Fixpoint find_bad (a b : schema) {struct a} : option (list str) :=
  match a with
  | SOpt a' => match b with SOpt b' => find_bad a' b' | _ => Some [] end
  | SStruct fa =>
    match strip_opt b with
    | SStruct fb =>
      let eb := expand fb in
      match (fix go (fa : list field) : option (list str) :=
               match fa with
               | [] => None
               | f :: r =>
                 match find_wire (fwire f) eb with
                 | Some g =>
                   match find_bad (fsch f) (fsch g) with
                   | Some p => Some (fwire f :: p)
                   | None => if negb (fdefault f) || is_never (fsch f) && lenient g then go r else Some [fwire f]
                   end
                 | None => match fsch f with SNever => go r | _ => Some [fwire f] end
                 end
               end) fa with
      | Some p => Some p
      | None => first_bad_impl_field fa eb
      end
    | _ => Some []
    end
  | STagged ta va =>
    match strip_opt b with
    | STagged tb vb =>
      if negb (str_eqb ta tb) then Some [ta]
      else
        (fix gov (va : list (str * list field)) : option (list str) :=
           match va with
           | [] => None
           | (n, fa) :: r =>
             match lookup n vb with
             | Some fb =>
               let eb := expand fb in
               match (fix go (fa : list field) : option (list str) :=
                          match fa with
                          | [] => None
                          | f :: r =>
                            match find_wire (fwire f) eb with
                            | Some g =>
                              match find_bad (fsch f) (fsch g) with
                              | Some p => Some (fwire f :: p)
                              | None => if negb (fdefault f) || is_never (fsch f) && lenient g then go r else Some [fwire f]
                              end
                            | None => match fsch f with SNever => go r | _ => Some [fwire f] end
                            end
                          end) fa with
               | Some p => Some (n :: p)
               | None =>
                 match first_bad_impl_field fa eb with
                 | Some p => Some (n :: p)
                 | None => gov r
                 end
               end
             | None => Some [n]
             end
           end) va
    | _ => Some []
    end
  | _ => if compat a b then None else Some []
  end.

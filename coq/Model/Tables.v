(* All constant data the modelled code reads. The model takes a [Tables.t] as a parameter; Gen/Tables.v
   instantiates it from the data dumped out of the current /repo tree on every run. *)
Require Import NArith ZArith List.
Import ListNotations.
Open Scope N_scope.

Record magic_cfg := { mg_mask : N; mg_magic : N; mg_hash_mask : N; mg_shift : N; mg_attacks : list N }.

Record t := {
  rook_magics : list magic_cfg;       (* 64, by square *)
  bishop_magics : list magic_cfg;
  king_tbl : list N; knight_tbl : list N; wpawn_tbl : list N; bpawn_tbl : list N;   (* 64 each *)
  zob_ps : list (list N);             (* 14 rows (piece + 7*colour) x 64 *)
  zob_ep : list N;                    (* 8, by file *)
  zob_wq : N; zob_wk : N; zob_bq : N; zob_bk : N; zob_side : N;
  pst_white : list (list (list Z));   (* [stage][piece-1][square] *)
  pst_black : list (list (list Z));
  win_score : Z; draw_score : Z; max_full_moves : Z; max_half_moves : N; contempt : Z;
  mvv_values : list Z;                (* Bitboard::PIECE_VALUES, 7 entries *)
  val_p : N; val_n : N; val_b : N; val_r : N; val_q : N;   (* simple.rs *_VALUE *)
  wq_empty : N; wk_empty : N; bq_empty : N; bk_empty : N;  (* castling EMPTY occupancies *)
  wq_check : N; wk_check : N; bq_check : N; bk_check : N;  (* castling CHECK occupancies *)
  rank_masks : list N;                (* RANK_1 .. RANK_8 *)
  file_masks : list N;                (* FILE_A .. FILE_H *)
  layout : list (N * N);              (* (mask, shift) of the 16 Move fields, in declaration order *)
  poll_period : N; history_len : N; tt_capacity : N
}.

Definition nthN {A} (l : list A) (i : N) (d : A) : A := nth (N.to_nat i) l d.
Definition nthN_opt {A} (l : list A) (i : N) : option A := nth_error l (N.to_nat i).

Definition empty_cfg : magic_cfg := {| mg_mask := 0; mg_magic := 0; mg_hash_mask := 0; mg_shift := 0; mg_attacks := [] |}.

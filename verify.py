#!/usr/bin/env python3
"""Driver of the verification machinery.
   ./verify.py setup                       build everything from the files on disk (offline)
   ./verify.py check <Cxx> [--tier quick|thorough] [--seed N]
   ./verify.py replay <replay.json>        re-run one recorded case on the current tree
Environment: VERIF_SEED, VERIF_TIER override the defaults.
A check always: (1) rebuilds the harness against /repo's working tree with the hooks on, regenerates coq/Gen from it and
re-checks the Coq development (make is incremental: only what changed is re-checked); (2) re-compiles the property's
pinned theorem file and reads its Print Assumptions; (3) runs the correspondence families of the property on the
implementation and on the extracted model/spec; (4) writes evidence/<id>.json and prints VIOLATION / KNOWN-FINDING lines."""
import hashlib, json, os, random, re, subprocess, sys, time

ROOT = os.path.dirname(os.path.abspath(__file__))
sys.path.insert(0, os.path.join(ROOT, 'checks'))
BUILD = os.path.join(ROOT, '_build')
COQ = os.path.join(ROOT, 'coq')
REPO = os.environ.get('VERIF_REPO', '/repo')
HARNESS = os.path.join(BUILD, 'target', 'debug', 'ink_harness')
HARNESS_REL = os.path.join(BUILD, 'target', 'release', 'ink_harness')
MODEL = os.path.join(BUILD, 'ocaml', 'ink_model')
TABLES_TXT = os.path.join(COQ, 'Gen', 'tables.txt')
NPROC = 16

ENV = dict(os.environ, CARGO_NET_OFFLINE='true', CARGO_TARGET_DIR=os.path.join(BUILD, 'target'),
           RUSTFLAGS='--cfg inkayaku_verif -A warnings')

FORBIDDEN = re.compile(r'\b(Admitted|admit|Axiom|Parameter|Conjecture|Unset Guard|bypass_check|type-in-type|impredicative-set)\b')

TRANSLATOR_ERRORS = []

class BuildError(Exception):
    def __init__(self, stage, log):
        super().__init__(stage); self.stage = stage; self.log = log

def sh(cmd, cwd=None, env=None, timeout=3600, inp=None):
    p = subprocess.run(cmd, cwd=cwd, env=env or ENV, shell=isinstance(cmd, str), input=inp,
                       stdout=subprocess.PIPE, stderr=subprocess.STDOUT, text=True, timeout=timeout)
    return p.returncode, p.stdout

def log(msg):
    print('# ' + msg, flush=True)

# ------------------------------------------------------------------ build steps
def build_harness(release=False):
    os.makedirs(BUILD, exist_ok=True)
    cmd = 'cargo build --offline' + (' --release' if release else '')
    rc, out = sh(cmd, cwd=os.path.join(ROOT, 'harness'))
    if rc != 0:
        raise BuildError('harness', out[-6000:])

def build_engine_app():
    """the real UCI binary of the current tree (hooks cfg on, same target dir as the harness)"""
    rc, out = sh('cargo build --offline --manifest-path %s -p inkayaku_engine_app' % os.path.join(REPO, 'Cargo.toml'))
    if rc != 0:
        raise BuildError('engine_app', out[-4000:])
    return os.path.join(BUILD, 'target', 'debug', 'inkayaku_engine_app')

def regen_tables():
    dump = os.path.join(BUILD, 'tables.dump')
    rc, out = sh([HARNESS, 'dump'])
    if rc != 0:
        raise BuildError('dump', out[-3000:])
    with open(dump, 'w') as f:
        f.write(out)
    rc, out = sh(['python3', os.path.join(ROOT, 'checks', 'gen_tables.py'), dump, REPO, os.path.join(COQ, 'Gen')])
    if rc != 0:
        raise BuildError('gen_tables', out[-3000:])
    rs2v = os.path.join(ROOT, 'checks', 'rs2v.py')
    if os.path.exists(rs2v):
        target = os.path.join(COQ, 'Gen', 'LichessSchema.v')
        rc, out = sh(['python3', rs2v, '--repo', REPO, '--out', target + '.new'])
        if rc != 0:
            # the translator does not understand the tree any more: the regenerated obligation C19_schemas is broken.
            # Keep the previous schema (if any) so that the model still runs and the correspondence can look for a
            # concrete failing document.
            TRANSLATOR_ERRORS.append('rs2v: ' + out.strip()[-1500:])
            if not os.path.exists(target):
                raise BuildError('rs2v', out[-3000:])
        else:
            new = open(target + '.new').read()
            if not os.path.exists(target) or open(target).read() != new:
                open(target, 'w').write(new)
        if os.path.exists(target + '.new'):
            os.remove(target + '.new')

def coq_files():
    fs = []
    for d, _, names in os.walk(COQ):
        for n in names:
            if n.endswith('.v'):
                p = os.path.relpath(os.path.join(d, n), COQ)
                if not p.startswith('Extract'):
                    fs.append(p)
    return sorted(fs)

def coq_make(targets=None):
    """Full .vo build (incremental).  Returns (ok, log)."""
    files = coq_files()
    stamp = os.path.join(COQ, '.filelist')
    listing = '\n'.join(files)
    if not os.path.exists(os.path.join(COQ, 'Makefile')) or not os.path.exists(stamp) or open(stamp).read() != listing:
        rc, out = sh(['coq_makefile', '-f', '_CoqProject'] + files + ['-o', 'Makefile'], cwd=COQ)
        if rc != 0:
            raise BuildError('coq_makefile', out)
        open(stamp, 'w').write(listing)
    if targets is None:
        # everything except the property files: those are compiled by check_proofs of the property that owns them
        # (one compilation whose Print Assumptions output is kept), not once here and once there
        targets = [f + 'o' for f in files if not f.startswith('Properties/')]
    cmd = ['make', '-k', '-j%d' % NPROC] + targets
    rc, out = sh(cmd, cwd=COQ, timeout=3000)
    return rc == 0, out

def dev_key():
    """content hash of every source file of the development (the compiled files are a function of it)"""
    h = hashlib.sha256()
    for f in coq_files():
        h.update(f.encode()); h.update(hashlib.sha256(open(os.path.join(COQ, f), 'rb').read()).digest())
    return h.hexdigest()

def build_properties(rels):
    """Compile the given property files (and whatever they need) through the Makefile, sequentially, and return
    {file: compiler output (Print Assumptions)} -- from this compilation, or from an earlier one of the identical
    development (same content hash of all sources).  Raises BuildError when one does not compile."""
    key = dev_key()
    odir = os.path.join(BUILD, 'propout'); os.makedirs(odir, exist_ok=True)
    def cpath(rel): return os.path.join(odir, rel.replace('/', '_') + '.json')
    def cached(rel):
        try:
            d = json.load(open(cpath(rel)))
            if d['key'] == key and os.path.exists(os.path.join(COQ, rel + 'o')):
                return d['out']
        except Exception:
            pass
        return None
    outs = {r: cached(r) for r in rels}
    todo = [r for r in rels if outs[r] is None]
    if todo:
        for r in todo:
            for ext in ('o', 'os', 'ok'):
                try: os.remove(os.path.join(COQ, r + ext))
                except OSError: pass
        rc, out = sh(['make', '-j1'] + [r + 'o' for r in todo], cwd=COQ, timeout=6000)
        # split the log at the COQC lines
        seg, cur = {}, None
        for l in out.split('\n'):
            m = re.match(r'^COQC (\S+)', l)
            if m:
                cur = m.group(1); seg[cur] = ''
            elif cur is not None:
                seg[cur] += l + '\n'
        if rc != 0:
            raise BuildError('properties', out[-3000:])
        for f, o in seg.items():
            if f.startswith('Properties/'):
                json.dump({'key': key, 'out': o}, open(cpath(f), 'w'))
        for r in todo:
            outs[r] = seg.get(r, '')
    return outs

def extract_model():
    odir = os.path.join(BUILD, 'ocaml')
    os.makedirs(odir, exist_ok=True)
    run_vo = os.path.join(COQ, 'Driver', 'Run.vo')
    if os.path.exists(MODEL) and os.path.exists(run_vo) and os.path.getmtime(MODEL) >= os.path.getmtime(run_vo) \
            and os.path.getmtime(MODEL) >= os.path.getmtime(os.path.join(ROOT, 'ocaml', 'driver.ml')):
        return
    for n in os.listdir(odir):
        if n.endswith(('.ml', '.mli', '.cmi', '.cmx', '.o')):
            os.remove(os.path.join(odir, n))
    rc, out = sh(['coqc', '-Q', COQ, 'Ink', os.path.join(COQ, 'Extract', 'Extract.v')], cwd=odir)
    if rc != 0:
        raise BuildError('extraction', out[-4000:])
    sh(['cp', os.path.join(ROOT, 'ocaml', 'driver.ml'), odir])
    rc, out = sh('ocamlfind ocamlopt -w -a -O2 -o ink_model $(ocamldep -sort *.mli *.ml)', cwd=odir)
    if rc != 0 or not os.path.exists(MODEL):
        raise BuildError('ocamlopt', out[-4000:])

def sync(need_release=False):
    t0 = time.time()
    build_harness()
    if need_release:
        build_harness(release=True)
    regen_tables()
    ok, out = coq_make()
    extract_ok = True
    try:
        extract_model()
    except BuildError as e:
        extract_ok = False
        out += '\n' + e.log
    log('sync: harness + Gen + coq make (%s) + extraction (%s) in %.1fs' % ('ok' if ok else 'FAILED', 'ok' if extract_ok else 'FAILED', time.time() - t0))
    return ok, out

# ------------------------------------------------------------------ running families
RUN_TIMEOUT = [3000]      # seconds per family run; run_check lowers it for the quick tier
def _run_sharded(argv, cases, timeout=3000):
    """Feed `cases` (list of lines) to up to NPROC copies of argv; return the list of output lines."""
    if not cases:
        return []
    n = min(NPROC, max(1, len(cases) // 8))
    shards = [cases[i::n] for i in range(n)]
    procs = []
    for s in shards:
        p = subprocess.Popen(argv, stdin=subprocess.PIPE, stdout=subprocess.PIPE, stderr=subprocess.DEVNULL, text=True, env=ENV)
        procs.append(p)
    # write inputs from threads-free approach: small enough to communicate sequentially using temp files
    outs = []
    import threading
    results = [None] * n
    def work(i):
        try:
            o, _ = procs[i].communicate('\n'.join(shards[i]) + '\n', timeout=RUN_TIMEOUT[0] if timeout == 3000 else timeout)
        except subprocess.TimeoutExpired:
            # a case does not terminate: keep what was answered before it, the rest of the shard counts as CRASH
            procs[i].kill()
            try:
                o, _ = procs[i].communicate(timeout=30)
            except Exception:
                o = ''
        results[i] = o.split('\n')
        if results[i] and results[i][-1] == '':
            results[i].pop()
    ths = [threading.Thread(target=work, args=(i,)) for i in range(n)]
    for t in ths: t.start()
    for t in ths: t.join()
    out = [None] * len(cases)
    for i in range(n):
        r = results[i] or []
        if len(r) != len(shards[i]):
            r = r + ['CRASH'] * (len(shards[i]) - len(r))
        out[i::n] = r[:len(shards[i])]
    return out

_release_built = False
def run_impl(family, cases, release=False):
    global _release_built
    if release and not _release_built:
        build_harness(release=True)          # always rebuilt from the current tree, once per check
        _release_built = True
    cov = os.environ.get('VERIF_COVERAGE_HARNESS')      # development aid: a coverage-instrumented harness binary
    if cov:
        return _run_sharded([cov, 'run', family], cases)
    return _run_sharded([HARNESS_REL if release else HARNESS, 'run', family], cases)

def run_model(family, cases):
    return _run_sharded([MODEL, TABLES_TXT, family], cases)

GEN_FALLBACK = []      # notes for the evidence: the position generator (which plays games with the implementation's own
                       # move generator) failed on the current tree and shipped positions were used instead
def gen_positions(kind, seed, n):
    try:
        rc, out = sh([HARNESS, 'gen', kind, str(seed), str(n)], timeout=180 + n // 50)
    except subprocess.TimeoutExpired:
        rc, out = -1, 'timeout'
    if rc != 0:
        # the generator drives the implementation; when the implementation is broken badly enough to take it down,
        # fall back to positions generated from the unchanged tree (corpus/fallback_<kind>.txt, all legal by the Spec)
        fb = corpus('fallback_' + kind)
        if not fb:
            raise BuildError('gen', out[-2000:])
        GEN_FALLBACK.append('position generator `%s` failed on this tree (%s); %d shipped positions used' % (kind, out.strip()[-160:].replace('\n', ' '), min(n, len(fb))))
        rng = random.Random(seed)
        return fb if n >= len(fb) else rng.sample(fb, n)
    return [l for l in out.split('\n') if l]

def corpus(family):
    p = os.path.join(ROOT, 'corpus', family + '.txt')
    if not os.path.exists(p):
        return []
    return [l.rstrip('\n') for l in open(p) if l.strip() and not l.startswith('#')]

def vm_crosscheck(family, cases, observed):
    """Cross-check of the extraction: evaluate the same Coq definitions INSIDE Coq (vm_compute) on a sample of the
    cases and compare with what the extracted OCaml program printed. Returns (number checked, list of mismatches)."""
    d = os.path.join(BUILD, 'vmcheck')
    os.makedirs(d, exist_ok=True)
    def lit(s):
        return '[' + '; '.join(str(ord(ch)) for ch in s) + ']'
    import ast
    def batch(cs, tag):
        src = ['Require Import Ink.Lib.Str.', 'Require Import NArith List.', 'Import ListNotations.', 'Require Import Ink.Gen.Tables Ink.Driver.Run.', 'Open Scope N_scope.',
               'Definition fam : str := %s.' % lit(family),
               'Definition inputs : list str := [%s].' % ';\n  '.join(lit(c) for c in cs),
               'Eval vm_compute in (map (fun l => run tables fam l) inputs).']
        path = os.path.join(d, 'cases_%s_%s.v' % (re.sub(r'\W', '_', family), tag))
        open(path, 'w').write('\n'.join(src) + '\n')
        try:
            rc, out = sh('ulimit -s unlimited 2>/dev/null; exec coqc -noglob -Q %s Ink %s' % (COQ, path), cwd=d, timeout=1500)
        except subprocess.TimeoutExpired:
            rc, out = -1, 'timeout'
        if rc != 0:
            if 'Error' in out and 'Stack overflow' not in out and 'Out of memory' not in out:
                return 'error', out[-500:]
            return 'resource', out[-200:]       # killed / stack / memory / time: not a disagreement
        m = re.search(r'=\s*(\[.*\])\s*:\s*list', out, re.S)
        if not m:
            return 'error', 'cannot parse coqc output'
        body = re.sub(r'%N', '', m.group(1).replace('\n', ' '))
        vals = ast.literal_eval(body.replace(';', ','))
        return 'ok', [''.join(chr(x) for x in v) for v in vals]
    got = {}
    skipped = 0
    work = [(list(range(len(cases))), '0')]
    while work:
        idx, tag = work.pop()
        st, r = batch([cases[i] for i in idx], tag)
        if st == 'ok':
            for i, g in zip(idx, r): got[i] = g
        elif st == 'error':
            return 0, ['coqc failed: ' + r]
        elif len(idx) > 1:
            h = len(idx) // 2
            work.append((idx[:h], tag + 'a')); work.append((idx[h:], tag + 'b'))
        else:
            skipped += 1                        # this one case exhausts the in-Coq evaluator's resources
    if skipped:
        log('vm cross-check: %d case(s) of family %s not evaluated inside Coq (resources)' % (skipped, family))
    bad = [(cases[i], g, observed[i]) for i, g in sorted(got.items()) if g != observed[i]]
    return len(got), bad

def coqchk(pid):
    """Independent re-check of the compiled property file(s) and everything they depend on; returns the axiom report.
    The result is cached under the content hash of every compiled file of the development (a changed .vo anywhere
    invalidates it).  A run that does not finish within the budget is reported as not completed, not as a rejection."""
    import hashlib, glob as _glob
    h = hashlib.sha256()
    for f in sorted(_glob.glob(os.path.join(COQ, '**', '*.vo'), recursive=True)):
        h.update(f.encode()); h.update(hashlib.sha256(open(f, 'rb').read()).digest())
    mods = ['Ink.Properties.' + pid] + ['Ink.Properties.' + os.path.basename(q)[:-2]
                                        for q in sorted(_glob.glob(os.path.join(COQ, 'Properties', pid + '_*.v')))]
    key = pid + ':' + h.hexdigest()
    cache_path = os.path.join(BUILD, 'coqchk_cache.json')
    try:
        cache = json.load(open(cache_path))
    except Exception:
        cache = {}
    if key in cache:
        return True, cache[key] + '\n(cached: identical compiled files were accepted by coqchk before)'
    try:
        rc, out = sh(['coqchk', '-silent', '-o', '-Q', COQ, 'Ink'] + mods, cwd=COQ, timeout=7200)
    except subprocess.TimeoutExpired:
        return None, 'coqchk did not finish within 7200 s'
    ax = out[out.find('CONTEXT SUMMARY'):] if 'CONTEXT SUMMARY' in out else out[-800:]
    ax = ax.strip()[:1500]
    if rc == 0:
        cache = {k: v for k, v in cache.items() if not k.startswith(pid + ':')}
        cache[key] = ax
        json.dump(cache, open(cache_path, 'w'))
    return rc == 0, ax

# ------------------------------------------------------------------ proofs
def check_proofs(pid, coq_ok, coq_log):
    """Re-compile Properties/<pid>.v, count pinned theorems and read Print Assumptions."""
    res = {'obligations': 0, 'discharged': 0, 'axioms': [], 'theorems': [], 'errors': []}
    if pid == 'C19' and TRANSLATOR_ERRORS:
        res['errors'] += TRANSLATOR_ERRORS
    path = os.path.join(COQ, 'Properties', pid + '.v')
    if not os.path.exists(path):
        res['errors'].append('no Properties/%s.v' % pid)
        return res
    import glob as _glob
    paths = [path] + sorted(_glob.glob(os.path.join(COQ, 'Properties', pid + '_*.v')))
    thms = []
    for q in paths:
        thms += re.findall(r'^\s*(?:Theorem|Corollary|Lemma)\s+(\w+)', open(q).read(), re.M)
    res['theorems'] = thms
    res['obligations'] = len(thms)
    # forbidden constructs anywhere in the development
    for f in coq_files():
        if f.startswith('Gen/'):
            continue
        body = open(os.path.join(COQ, f)).read()
        body = re.sub(r'\(\*.*?\*\)', '', body, flags=re.S)
        m = FORBIDDEN.search(body)
        if m:
            res['errors'].append('forbidden construct %r in %s' % (m.group(0), f))
    rels = [os.path.relpath(q, COQ) for q in paths]
    try:
        outs = build_properties(rels)
    except BuildError as e:
        res['errors'].append('%s do(es) not compile: %s' % (', '.join(rels), e.log[-1500:]))
        return res
    out = ''.join(outs[r] for r in rels)
    closed = out.count('Closed under the global context')
    ax = re.findall(r'^\s*(\w[\w.]*)\s*:', out[out.find('Axioms:'):], re.M) if 'Axioms:' in out else []
    res['axioms'] = sorted(set(ax))
    res['discharged'] = min(closed, len(thms))
    if closed < len(thms):
        # theorems whose Print Assumptions lists axioms: allowed only if in the allow-list
        allowed = set()
        bad = [a for a in res['axioms'] if a not in allowed]
        if bad:
            res['errors'].append('axioms used: ' + ', '.join(bad))
        else:
            res['discharged'] = len(thms)
    return res

# ------------------------------------------------------------------ results, evidence, replays
class Result:
    def __init__(self, pid, tier, seed):
        self.pid, self.tier, self.seed = pid, tier, seed
        self.violations = []      # (replay dict, suffix)
        self.vm_checked = set(); self.vm_lines = 0
        self.ties = []            # (family, case, model obs, impl obs): correspondence breaks below the property level
        self.known = []           # strings
        self.evaluations = 0
        self.distinct = set()
        self.samples = []
        self.families = {}
        self.notes = []
        self.skipped = {}
        self.exhaustive = False
        self.t0 = time.time()

    def count(self, family, cases, nontrivial=None):
        self.evaluations += len(cases)
        k = 0
        for c in cases:
            if nontrivial is None or nontrivial(c):
                h = hashlib.blake2b((family + '\0' + c).encode(), digest_size=8).digest()
                if h not in self.distinct:
                    self.distinct.add(h); k += 1
        self.families[family] = self.families.get(family, 0) + len(cases)
        if cases and len(self.samples) < 12:
            self.samples.append({'family': family, 'case': cases[len(cases) // 2][:400]})

    def tie_break(self, family, case, model_obs, impl_obs):
        self.ties.append((family, case, model_obs, impl_obs))

    def violation(self, family, case, expected, actual, oracle, note='', suffix=''):
        self.violations.append(({'property': self.pid, 'family': family, 'seed': self.seed, 'input': case,
                                 'expected': expected, 'actual': actual, 'oracle': oracle, 'note': note}, suffix))

def write_replay(rep):
    os.makedirs(os.path.join(ROOT, 'replays'), exist_ok=True)
    h = hashlib.sha1(json.dumps(rep, sort_keys=True).encode()).hexdigest()[:12]
    path = os.path.join(ROOT, 'replays', '%s-%s.json' % (rep['property'], h))
    rep['cmd'] = './verify.py replay ' + os.path.relpath(path, ROOT)
    with open(path, 'w') as f:
        json.dump(rep, f, indent=1)
    return path

# ------------------------------------------------------------------ source fingerprints (adaptive sampling)
CRATE_DEPS = {          # which crates' sources a property's hand model was written against
    'C01': ['board', 'core'], 'C02': ['board', 'core'], 'C03': ['board', 'core'], 'C04': ['board'], 'C05': ['board', 'core'],
    'C06': ['board', 'core'], 'C07': ['engine_core', 'board', 'core', 'uci'], 'C08': ['engine_core', 'board', 'core', 'uci'],
    'C09': ['engine_core', 'board', 'core', 'uci'], 'C10': ['engine_core', 'board', 'core', 'uci'], 'C11': ['engine_core', 'board', 'core'],
    'C12': ['board', 'core'], 'C13': ['board', 'core'], 'C14': ['board', 'core'], 'C15': ['uci', 'core'],
    'C16': ['engine_core', 'uci', 'board', 'core', 'engine_app'], 'C17': ['pgn', 'board', 'core'], 'C18': ['engine_core'], 'C19': ['lichess_api', 'core', 'uci'],
}

def source_fingerprints():
    """{path relative to /repo: hash of the file with comments and white space removed} for every Rust source file"""
    out = {}
    for crate in sorted(os.listdir(REPO)):
        src = os.path.join(REPO, crate, 'src')
        if not os.path.isdir(src):
            continue
        for root, _, files in os.walk(src):
            for f in sorted(files):
                if f.endswith('.rs'):
                    p = os.path.join(root, f)
                    body = open(p, errors='replace').read()
                    body = re.sub(r'//[^\n]*', '', body)
                    body = re.sub(r'\s+', '', body)
                    out[os.path.relpath(p, REPO)] = hashlib.sha256(body.encode()).hexdigest()[:16]
    return out

def changed_sources(pid):
    """source files of the crates behind property pid whose text differs from the text the models were written against
    (checks/source_fingerprints.json, committed).  A difference is NOT an alarm: it makes the check sample more."""
    try:
        ref = json.load(open(os.path.join(ROOT, 'checks', 'source_fingerprints.json')))
    except Exception:
        return []
    cur = source_fingerprints()
    crates = CRATE_DEPS.get(pid, [])
    ch = [f for f in sorted(set(ref) | set(cur)) if f.split(os.sep)[0] in crates and ref.get(f) != cur.get(f)]
    return ch

def known_findings():
    out = []
    p = os.path.join(ROOT, 'known_findings.txt')
    if os.path.exists(p):
        for l in open(p):
            l = l.strip()
            if l.startswith('known:'):
                d = dict(re.findall(r'(\w+)=(\S+)', l.split('::')[0]))
                d['text'] = l.split('::', 1)[1].strip() if '::' in l else ''
                out.append(d)
    return out

TRUSTED_BASE = [
    'Coq 8.16.1 kernel incl. vm_compute (no native_compute)',
    'hand-written Gallina model of the Rust code (coq/Model), tied to /repo by the differential runs of this check',
    'table dump through the cfg(inkayaku_verif) hooks + checks/gen_tables.py (regenerates coq/Gen on every run)',
    'extraction: ExtrOcamlBasic only (bool, option, unit, list, prod, sumbool, sumor; andb/orb/negb/fst/snd inlined); N/Z/positive as Coq inductives; ocamlfind ocamlopt 4.13.1; ocaml/driver.ml',
    'harness/src (canonical printing of the implementation observations), verify.py (diff)',
    'rustc/LLVM/std/regex/serde are outside the model',
]

def finish(res, proofs, level='proof', assumptions=None, rule='', extra=None, coq_failed_note=None):
    wall = time.time() - res.t0
    kf = known_findings()
    lines = []
    nviol = 0
    for rep, suffix in res.violations:
        path = write_replay(rep)
        lines.append('VIOLATION property=%s replay=%s%s' % (res.pid, os.path.relpath(path, ROOT), (' ' + suffix) if suffix else ''))
        nviol += 1
    for k in res.known:
        print('KNOWN-FINDING: property=%s %s' % (res.pid, k))
    cov = {
        'obligations': max(proofs['obligations'], 1), 'discharged': proofs['discharged'],
        'checker_cmd': 'make -C coq <all non-property .vo> ; make -C coq -j1 Properties/%s.vo Properties/%s_*.vo (Print Assumptions output parsed); thorough: coqchk -o' % (res.pid, res.pid),
        'trusted_base': TRUSTED_BASE + ['Print Assumptions: ' + (', '.join(proofs['axioms']) if proofs['axioms'] else 'Closed under the global context for every pinned theorem')],
        'theorems': proofs['theorems'],
        'evaluations': max(res.evaluations, 1), 'distinct_nontrivial': len(res.distinct),
        'rule': rule, 'samples': res.samples or [{'note': 'no correspondence cases in this run'}],
        'families': res.families, 'exhaustive': res.exhaustive, 'skipped': res.skipped, 'notes': res.notes,
        'known_findings_seen': res.known,
    }
    if extra:
        cov.update(extra)
    ev = {'property_id': res.pid, 'tier': res.tier, 'seed': res.seed, 'level': level, 'coverage': cov,
          'assumptions': assumptions or [], 'wall_s': round(wall, 2), 'violations': nviol}
    os.makedirs(os.path.join(ROOT, 'evidence'), exist_ok=True)
    with open(os.path.join(ROOT, 'evidence', res.pid + '.json'), 'w') as f:
        json.dump(ev, f, indent=1)
    for l in lines:
        print(l)
    log('%s %s: %d cases, %d distinct non-trivial, %d/%d obligations, %d violation(s), %.1fs'
        % (res.pid, res.tier, res.evaluations, len(res.distinct), proofs['discharged'], proofs['obligations'], nviol, wall))
    return 1 if nviol else 0

# ------------------------------------------------------------------ main
def main():
    args = sys.argv[1:]
    if not args:
        print(__doc__); return 2
    if args[0] == 'setup':
        try:
            build_harness(); build_harness(release=True)
            regen_tables()
            ok, out = coq_make()
            if not ok:
                print(out[-6000:]); return 1
            extract_model()
            if '--all-properties' in args:
                build_properties([f for f in coq_files() if f.startswith('Properties/')])
        except BuildError as e:
            print('setup failed at %s:\n%s' % (e.stage, e.log)); return 1
        print('setup ok'); return 0
    if args[0] == 'check':
        pid = args[1]
        tier = os.environ.get('VERIF_TIER', 'quick')
        seed = int(os.environ.get('VERIF_SEED', '1'))
        i = 2
        while i < len(args):
            if args[i] == '--tier': tier = args[i + 1]; i += 2
            elif args[i] == '--seed': seed = int(args[i + 1]); i += 2
            else: i += 1
        import props
        return props.run_check(pid, tier, seed)
    if args[0] == 'fingerprint':
        json.dump(source_fingerprints(), open(os.path.join(ROOT, 'checks', 'source_fingerprints.json'), 'w'), indent=0, sort_keys=True)
        print('fingerprints of %d source files written' % len(source_fingerprints())); return 0
    if args[0] == 'replay':
        import props
        return props.replay(args[1])
    print(__doc__); return 2

if __name__ == '__main__':
    sys.exit(main())
